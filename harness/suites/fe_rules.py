"""Suites of C01 / C03 around the language rules.

  suite_literals     `fe.literals`: literals of every kind and of unusual size at every place a literal is converted
  suite_annargs      `fe.annargs`: argument shapes of every built-in annotation type and four custom ones
  suite_exvalues     `fe.exvalues`: type expression x example value (fields, list items, map keys and values, nesting)

Direct oracles on the REAL compiler (testing; independent of the Lean models):
  suite_valid        generated legal models (all presets) x 2 layouts must compile
  suite_violations   rule x site x model injections (harness/inject.py) must be refused with InvalidSpec
Component correspondences (the Lean component models against the real compiler) with their own direct oracles:
  suite_params       `fe.params`: type instantiation (Model/FeParams.lean) on an exhaustive grid of argument shapes
  suite_names        `fe.names`:  name registration (Model/FeNames.lean) on random small name sets

Who reports what: an *accepted illegal* spec or a *refused legal* spec is C01's failing input; any exception other
than InvalidSpec is C03's (`{'kind': 'escape', 'exc':…, 'where':…}`) and is only counted when the suite runs for C01.
"""
import concurrent.futures
import math
import os
import re

from harness import core
from harness.suites import fe_fuzz

WORKERS = min(16, os.cpu_count() or 4)


# ------------------------------------------------------------------------------------------------ running the compiler

def classify_safe(specs, **kw):
    """fe_fuzz.classify; a time-limit exception that fires outside the region where classify catches it (in one of its
    handlers, in its `finally`, between arming the timers and entering the `try`) is turned into the same verdict
    instead of escaping -- out of a pool worker it would take the whole pool down (BrokenProcessPool)"""
    import signal
    try:
        return fe_fuzz.classify(specs, **kw)
    except fe_fuzz._Timeout as e:
        try:
            signal.setitimer(signal.ITIMER_PROF, 0)
            signal.alarm(0)
        except fe_fuzz._Timeout:
            pass
        return {'k': 'crash', 'exc': 'Timeout', 'where': e.where, 'clock': e.clock, 'limit_s': kw.get('limit_s', 20), 'stray': True}


def _compile_many(batch):
    core.ensure_repo_on_path()
    return [classify_safe(s) for s in batch]


def compile_all(cases, chunk=25):
    """cases: list of specs ([(path, text)]); verdicts {'k': 'ok'|'spec'|'crash', ...} in order"""
    if not cases:
        return []
    chunks = [cases[i:i + chunk] for i in range(0, len(cases), chunk)]
    out = []
    with concurrent.futures.ProcessPoolExecutor(max_workers=WORKERS) as ex:
        for res in ex.map(_compile_many, chunks):
            out.extend(res)
    # a timeout counts only when it repeats with the case run alone under a longer limit
    for i, v in enumerate(out):
        if v.get('exc') == 'Timeout':
            again = classify_safe(cases[i], limit_s=v.get('limit_s', 20) * 3)      # as fe_fuzz.confirm_timeout
            if again.get('exc') == 'Timeout':
                again['confirmed'] = True
            out[i] = again
    return out


def driver_retry(ck, requests, tries=12, wait_s=20):
    """ck.driver, tolerant of the executable being relinked by a concurrent build"""
    import time
    for i in range(tries):
        try:
            return ck.driver(requests)
        except (RuntimeError, OSError) as e:
            if i == tries - 1 or ('missing' not in str(e) and 'No such file' not in str(e) and 'Text file busy' not in str(e)):
                raise
            time.sleep(wait_s)


def compile_one(specs):
    v = classify_safe([tuple(s) for s in specs])
    if v['k'] == 'spec':
        v['msg'] = spec_message(specs)
    return v


def spec_message(specs):
    """message of the InvalidSpec the real compiler raises (for reports only)"""
    from stone.frontend.frontend import specs_to_ir
    from stone.frontend.exception import InvalidSpec
    try:
        specs_to_ir([tuple(s) for s in specs])
    except InvalidSpec as e:
        return '%s (%s:%s)' % (e.msg, e.path, e.lineno)
    except Exception as e:  # noqa: BLE001
        return '%s: %s' % (type(e).__name__, e)
    return None


def report_escape(ck, verdict, specs, origin):
    """C03's signature scheme for an exception that is not InvalidSpec"""
    small = fe_fuzz.shrink([list(s) for s in specs], verdict, budget=80)
    ck.failing_input('C03: %s escapes the frontend (%s)' % (verdict['exc'], verdict['where']),
                     {'kind': 'escape', 'exc': verdict['exc'], 'where': verdict['where']},
                     {'specs': small, 'origin': origin, 'verdict': verdict})


# ================================================================================================ fe.params

INT_POOL = [0, 1, -1, 2, 3, 5, 2 ** 31 - 1, 2 ** 31, -2 ** 31, -2 ** 31 - 1, 2 ** 32 - 1, 2 ** 32, 2 ** 63 - 1, 2 ** 63,
            -2 ** 63, -2 ** 63 - 1, 2 ** 64 - 1, 2 ** 64, 2 ** 53 + 1, 340282000000000000000000000000000000000,
            340282000000000000000000000000000000001, 340283000000000000000000000000000000000,
            -340282000000000000000000000000000000000, -340283000000000000000000000000000000000,
            10 ** 400, -10 ** 400, (2 ** 1024 - 2 ** 970) - 1, 2 ** 1024 - 2 ** 970, 10 ** 308, 10 ** 1000, 10 ** 4299,
            -10 ** 4298]
FLOAT_POOL = ['0.0', '1.5', '-1.5', '0.5', '1.0', '2.0', '3.0', '3.40282e38', '3.40283e38', '-3.40282e38', '-3.40283e38',
              '1e39', '1e999', '-1e999', '1e-400', '2147483647.0', '2147483648.5', '-0.0', '1e99999999999', '1' + '0' * 400 + '.5']
STR_POOL = ['', 'a', '[a-z]+', '(', '%Y-%m-%d', '\\d{3', 'x y', 'a{99999999999999}']
TYPE_POOL = ['String', 'String(min_length=1)', 'Int32', 'List(String)', 'S0', 'A0', 'A1', 'String?', 'Void', 'Bytes',
             'Map(String, Int32)', 'Timestamp("%Y")', 'List(3)', 'Nope']

KW_NAMES = {
    'Bytes': [], 'Boolean': [], 'Void': [],
    'Int32': ['min_value', 'max_value'], 'Int64': ['min_value', 'max_value'],
    'UInt32': ['min_value', 'max_value'], 'UInt64': ['min_value', 'max_value'],
    'Float32': ['min_value', 'max_value'], 'Float64': ['min_value', 'max_value'],
    'String': ['min_length', 'max_length', 'pattern'], 'Timestamp': [], 'List': ['min_items', 'max_items'], 'Map': [],
}
KINDS = list(KW_NAMES)
N_POS = {'List': 1, 'Map': 2, 'Timestamp': 1}


class Lit:
    """a literal or type reference as written in the spec"""
    def __init__(self, text):
        self.text = text

    def __repr__(self):
        return self.text


def _lit_texts():
    out = [str(i) for i in INT_POOL] + FLOAT_POOL + ['"%s"' % s.replace('\\', '\\\\') for s in STR_POOL]
    out += ['true', 'false', 'null'] + TYPE_POOL
    return out


LITS = _lit_texts()
SMALL = ['0', '1', '2', '3', '-1', 'true', 'false', '1.5', '0.5', '0.0', '2.0', 'null', '"a"', 'S0', '5']


def params_grid(rng, cap):
    """type expressions `K(args)[?]` as text; exhaustive single-argument shapes, all small pairs, then random ones"""
    exprs = []
    for k in KINDS:
        exprs += [k, k + '()', k + '?', k + '()?']
        req = N_POS.get(k, 0)
        base_pos = {'List': ['String'], 'Map': ['String', 'Int32'], 'Timestamp': ['"%Y"']}.get(k, [])
        # every literal in every positional slot (others filled with a legal argument), also one too many / too few
        for slot in range(req + 1):
            for l in LITS:
                pos = list(base_pos) + ['Int32']
                pos[slot] = l
                exprs.append('%s(%s)' % (k, ', '.join(pos[:max(req, slot + 1)])))
        if req:
            exprs.append('%s(%s)' % (k, ', '.join(base_pos[:req - 1])) if req > 1 else k + '()')
        # every literal for every keyword (legal positional part)
        for name in KW_NAMES[k] + ['bogus', 'min_value', 'data_type', 'fmt', 'format', 'key_data_type']:
            for l in LITS:
                exprs.append('%s(%s)' % (k, ', '.join(base_pos + ['%s=%s' % (name, l)])))
        # pairs of small values for the (min, max) keywords, both orders of writing
        names = KW_NAMES[k]
        if len(names) >= 2:
            for a in SMALL:
                for b in SMALL:
                    exprs.append('%s(%s)' % (k, ', '.join(base_pos + ['%s=%s' % (names[0], a), '%s=%s' % (names[1], b)])))
            for a in SMALL[:6]:
                for b in SMALL[:6]:
                    exprs.append('%s(%s)' % (k, ', '.join(base_pos + ['%s=%s' % (names[1], b), '%s=%s' % (names[0], a)])))
            exprs.append('%s(%s)' % (k, ', '.join(base_pos + ['%s=1' % names[0], '%s=2' % names[0]])))     # keyword twice
        if k == 'String':
            for p in ['"[a-z]+"', '"("', '0', '""', 'null']:
                for a in ['1', '3']:
                    exprs.append('String(min_length=%s, max_length=2, pattern=%s)' % (a, p))
        # positional parameters by keyword
        if k == 'List':
            exprs += ['List(data_type=String)', 'List(String, data_type=String)']
        if k == 'Map':
            exprs += ['Map(key_data_type=String, value_data_type=String)', 'Map(String, value_data_type=String)']
        if k == 'Timestamp':
            exprs += ['Timestamp(fmt="%Y")', 'Timestamp("%Y", fmt="%Y")']
    # nesting: errors and crashes below the outermost reference
    for inner in ['List(String, min_items="a")', 'List(3)', 'String(pattern="(")', 'Void?', 'Int32(min_value=1.5)',
                  'List(String, max_items=0)', 'String(min_length=2)', 'Nope', 'S0(1)', 'A0?', 'A1?']:
        exprs += ['List(%s)' % inner, 'Map(String, %s)' % inner, 'Map(%s, String)' % inner, 'List(List(%s))' % inner,
                  'List(%s, min_items="a")' % inner, 'List(String, min_items=%s)' % inner, 'List(%s)?' % inner]
    seen, out = set(), []
    for e in exprs:
        if e not in seen:
            seen.add(e)
            out.append(e)
    # random combinations
    while len(out) < cap:
        k = rng.choice(KINDS)
        pos = [rng.choice(LITS) for _ in range(rng.choice([N_POS.get(k, 0)] * 4 + [0, 1, 2, 3]))]
        kws = []
        for name in rng.sample(KW_NAMES[k] + ['bogus'], rng.randint(0, min(3, len(KW_NAMES[k]) + 1))):
            kws.append('%s=%s' % (name, rng.choice(LITS + SMALL * 3)))
        e = '%s(%s)%s' % (k, ', '.join(pos + kws), rng.choice(['', '', '', '?']))
        if e not in seen:
            seen.add(e)
            out.append(e)
    return out            # the systematic part is never cut; random combinations fill up to `cap`


PARAMS_HEADER = ('namespace ns\n\nstruct S0\n    x Int32\n\nalias A0 = String\n\nalias A1 = String?\n\n')


def params_spec(expr, ctx):
    if ctx == 'alias':
        return PARAMS_HEADER + 'alias X = %s\n' % expr
    return PARAMS_HEADER + 'struct T\n    f %s\n' % expr


# ---- parsing the expression text into the driver's request (an independent little parser of the argument syntax)

_TOK = re.compile(r'\s*("(?:\\.|[^"\\])*"|-?\d+(?:\.\d*(?:e-?\d+)?|e-?\d+)|-?\d+|[A-Za-z_][A-Za-z0-9_]*|[(),=?])')


def _tokens(s):
    pos, out = 0, []
    while pos < len(s):
        m = _TOK.match(s, pos)
        if not m:
            raise ValueError('cannot tokenise %r at %d' % (s, pos))
        out.append(m.group(1))
        pos = m.end()
    return out


def enc_float(x):
    if math.isinf(x):
        return {'float': 'inf' if x > 0 else '-inf'}
    n, d = x.as_integer_ratio()
    return {'float': [str(n), str(d)]}


def enc_value(v):
    """encoding of a Python value stored in an IR type / a literal"""
    if v is True or v is False:
        return {'bool': v}
    if isinstance(v, int):
        return {'int': str(v)}
    if isinstance(v, float):
        return enc_float(v)
    if isinstance(v, str):
        return {'str': v}
    return {'null': True}


def parse_type_expr(toks, i, rx):
    """-> (request T or {'user':..} / {'undefined':..}, next index)"""
    name = toks[i]
    i += 1
    pos, kw = [], []
    has_args = False
    if i < len(toks) and toks[i] == '(':
        has_args = True
        i += 1
        while toks[i] != ')':
            if toks[i] == ',':
                i += 1
                continue
            if i + 1 < len(toks) and toks[i + 1] == '=' and re.match(r'[A-Za-z_]', toks[i]):
                key = toks[i]
                val, i = parse_arg(toks, i + 2, rx)
                kw.append([key, val])
            else:
                val, i = parse_arg(toks, i, rx)
                pos.append(val)
        i += 1
    nullable = False
    if i < len(toks) and toks[i] == '?':
        nullable = True
        i += 1
    if name in KW_NAMES:
        return {'k': name, 'pos': pos, 'kw': kw, 'nullable': nullable}, i
    return {'other': name, 'args': has_args and bool(pos or kw), 'nullable': nullable}, i


def parse_arg(toks, i, rx):
    t = toks[i]
    if t.startswith('"'):
        s = re.sub(r'\\(.)', lambda m: {'n': '\n', 't': '\t'}.get(m.group(1), m.group(1)), t[1:-1])
        try:
            re.compile(s)
            rx[s] = True
        except (re.error, OverflowError):
            rx[s] = False
        return {'str': s}, i + 1
    if t in ('true', 'false'):
        return {'bool': t == 'true'}, i + 1
    if t == 'null':
        return {'null': True}, i + 1
    if re.match(r'-?\d', t):
        if re.fullmatch(r'-?\d+', t):
            return {'int': str(int(t))}, i + 1
        return enc_float(float(t)), i + 1
    ty, j = parse_type_expr(toks, i, rx)
    return {'ty': ty}, j


class Unmodelled(Exception):
    pass


def to_request(expr):
    """driver request for the expression, or raise Unmodelled when it leaves the component model's domain (a
    reference to a user type / alias with arguments or `?`, an undefined symbol: decided by `_resolve_type`, which
    the model covers for built-in types only)"""
    rx = {}
    ty, i = parse_type_expr(_tokens(expr), 0, rx)
    if i != len(_tokens(expr)):
        raise ValueError(expr)

    def conv(t, top=False):
        if 'other' in t:
            # plain reference to the struct S0 / the aliases A0, A1 of the header: a resolved non-String type
            if t['other'] in ('S0', 'A0', 'A1') and not t['args'] and not t['nullable'] and not top:
                return {'user': False}
            raise Unmodelled(t['other'])

        def arg(a):
            if 'ty' in a:
                c = conv(a['ty'])
                return c if 'user' in c else {'ty': c}
            return a
        return {'k': t['k'], 'nullable': t['nullable'], 'pos': [arg(a) for a in t['pos']],
                'kw': [[k, arg(a)] for k, a in t['kw']]}
    return {'op': 'fe.params', 'ty': conv(ty, True), 'rx': [[k, v] for k, v in rx.items()]}


def _dump_len(v):
    """a list length as stored: integral (booleans included) as a decimal string; anything else (not storable since
    List checks its lengths -- kept so that a regression shows as a disagreement) in the literal encoding"""
    import numbers
    if v is None:
        return None
    return str(int(v)) if isinstance(v, numbers.Integral) else enc_value(v)


def dump_ir_type(t):
    """the real IR type in the driver's dump format"""
    from stone.ir import data_types as dt
    if isinstance(t, dt.Nullable):
        return {'k': 'Nullable', 'of': dump_ir_type(t.data_type)}
    if isinstance(t, (dt.Struct, dt.Union, dt.Alias)):
        return {'k': 'user'}
    if isinstance(t, dt._BoundedInteger):
        return {'k': t.name, 'lo': None if t.min_value is None else str(int(t.min_value)),
                'hi': None if t.max_value is None else str(int(t.max_value))}
    if isinstance(t, dt._BoundedFloat):
        return {'k': t.name, 'lo': None if t.min_value is None else enc_float(t.min_value)['float'],
                'hi': None if t.max_value is None else enc_float(t.max_value)['float']}
    if isinstance(t, dt.String):
        return {'k': 'String', 'min': None if t.min_length is None else str(int(t.min_length)),
                'max': None if t.max_length is None else str(int(t.max_length)),
                'pattern': None if t.pattern is None else enc_value(t.pattern)}
    if isinstance(t, dt.Timestamp):
        return {'k': 'Timestamp', 'fmt': t.format}
    if isinstance(t, dt.List):
        return {'k': 'List', 'elem': dump_ir_type(t.data_type), 'min': _dump_len(t.min_items), 'max': _dump_len(t.max_items)}
    if isinstance(t, dt.Map):
        return {'k': 'Map', 'key': dump_ir_type(t.key_data_type), 'val': dump_ir_type(t.value_data_type)}
    if isinstance(t, dt.DataType):
        return {'k': t.name}
    # not a type at all (cannot happen since List / Map check their element argument; kept so that a regression
    # shows as a disagreement, not as an exception here): the stored value
    return enc_value(t)


def _params_run(batch):
    core.ensure_repo_on_path()
    from stone.frontend.frontend import specs_to_ir
    from stone.frontend.exception import InvalidSpec
    out = []
    for expr, ctx in batch:
        text = params_spec(expr, ctx)
        try:
            api = specs_to_ir([('ns.stone', text)])
            ns = api.namespaces['ns']
            t = ns.alias_by_name['X'].data_type if ctx == 'alias' else ns.data_type_by_name['T'].fields[0].data_type
            nullable = False
            from stone.ir import data_types as dt
            if isinstance(t, dt.Nullable):
                nullable, t = True, t.data_type
            out.append({'out': 'ok', 'ty': dump_ir_type(t), 'nullable': nullable})
        except InvalidSpec as e:
            out.append({'out': 'spec', 'msg': e.msg})
        except Exception as e:  # noqa: BLE001
            import traceback
            out.append({'out': 'crash', 'exc': type(e).__name__, 'where': fe_fuzz._where(e.__traceback__)})
    return out


_REASON_RE = [
    ('dupKeyword', r'defined more than once'), ('missingPositional', r'^Missing positional argument'),
    ('tooManyPositional', r'^Too many positional'), ('unknownKeyword', r'^Unknown argument'),
    ('positionalAsKeyword', r'cannot be specified as a keyword'), ('badArgument', r'^Bad argument to'),
    ('voidNullable', r'^Void cannot be marked nullable'),
]


def reason_of(msg):
    for name, rex in _REASON_RE:
        if re.search(rex, msg or ''):
            return name
    return 'other'


def suite_params(ck, report='C01', cap=None):
    """correspondence `fe.params` + the direct oracle of the component: the specification-level verdict
    (`legalRef`, evaluated by the driver from the lang_ref table) against acceptance by the real compiler"""
    rng = ck.rng
    exprs = params_grid(rng, cap or ck.scale(11000, 30000))
    cases, reqs = [], []
    skipped = 0
    for e in exprs:
        try:
            rq = to_request(e)
        except Unmodelled:
            skipped += 1
            rq = None
        ctx = 'alias' if (e.startswith('Void') or rng.random() < 0.1) else 'field'
        cases.append((e, ctx))
        reqs.append(rq)
    chunks = [cases[i:i + 40] for i in range(0, len(cases), 40)]
    real = []
    with concurrent.futures.ProcessPoolExecutor(max_workers=WORKERS) as ex:
        for res in ex.map(_params_run, chunks):
            real.extend(res)
    replies = driver_retry(ck, [r for r in reqs if r is not None])
    it = iter(replies)
    n_soft = 0
    for (e, ctx), rq, rv in zip(cases, reqs, real):
        ck.case(('fe.params', e, ctx), nontrivial=True)
        ck.hist('fe.params.real', rv['out'] if rv['out'] != 'crash' else 'crash:' + rv['exc'])
        if rv['out'] == 'crash' and report == 'C03':
            v = {'k': 'crash', 'exc': rv['exc'], 'where': rv['where']}
            ck.failing_input('C03: %s escapes the frontend (%s)' % (rv['exc'], rv['where']),
                             {'kind': 'escape', 'exc': rv['exc'], 'where': rv['where']},
                             {'specs': [['ns.stone', params_spec(e, ctx)]], 'origin': 'fe.params', 'verdict': v, 'expr': e})
        elif rv['out'] == 'crash':
            ck.stat('fe.params.escapes_left_to_C03')
        if rq is None:
            ck.stat('fe.params.outside_model')
            continue
        mv = next(it)
        if 'protocol_error' in mv:
            ck.disagree('fe.params', {'expr': e, 'ctx': ctx}, rv, mv)
            continue
        # a Void-typed struct field is refused by _create_struct_field after a successful instantiation
        void_field = ctx == 'field' and mv['out'] == 'ok' and mv['ty'].get('k') == 'Void'
        same = rv['out'] == mv['out'] or (void_field and rv['out'] == 'spec')
        if same and rv['out'] == 'crash':
            same = rv['exc'] == mv['exc']
        if same and rv['out'] == 'ok' and not void_field:
            same = rv['ty'] == mv['ty'] and rv['nullable'] == mv['nullable']
        if same:
            ck.agree('fe.params')
            if rv['out'] == 'spec' and not void_field and reason_of(rv['msg']) != mv.get('reason'):
                n_soft += 1          # which of two errors is reported first is not fixed by the property
        else:
            ck.disagree('fe.params', {'expr': e, 'ctx': ctx}, rv, mv)
        ck.hist('fe.params.legal', '%s/%s' % ('legal' if mv['legal'] else 'illegal', rv['out']))
        # the statements proved about the model, evaluated on the grid: accepted <=> legal; never an exception
        if mv['legal'] != (mv['out'] == 'ok') or mv['out'] == 'crash':
            ck.disagree('fe.params.theorem', {'expr': e}, 'instantiate_ok_iff_legal / instantiate_no_crash', mv)
        else:
            ck.agree('fe.params.theorem')
        if report == 'C01' and not void_field:
            if rv['out'] == 'ok' and not mv['legal']:
                shape = hole_shape(e, rq, mv)
                ck.failing_input('C01: an illegal type argument list is accepted: %s' % e,
                                 {'kind': 'accepted', 'rule': 'A20', 'shape': shape},
                                 {'specs': [['ns.stone', params_spec(e, ctx)]], 'expr': e, 'expect': 'refused',
                                  'rule': 'A20', 'suite': 'fe.params'})
            elif rv['out'] == 'spec' and mv['legal']:
                ck.failing_input('C01: a legal type argument list is refused: %s' % e,
                                 {'kind': 'refused', 'rule': 'A20', 'message': reason_of(rv['msg'])},
                                 {'specs': [['ns.stone', params_spec(e, ctx)]], 'expr': e, 'expect': 'accepted',
                                  'rule': 'A20', 'suite': 'fe.params', 'message': rv['msg']})
    ck.stats['fe.params.soft_reason_mismatch'] = n_soft
    ck.sample({'suite': 'fe.params', 'expr': cases[len(cases) // 3][0]})


def hole_shape(expr, rq, mv):
    """class of an accepted illegal argument list (signature of the finding): the type kind and the offending
    keywords -- the model proves there is none, so any hit is an acceptance the model does not explain"""
    return 'unexplained:' + rq['ty']['k']


# ================================================================================================ fe.names

NS_POOL = ['ab', 'a_b', 'AB', 'a', 'b', 'c', 'bc', 'abc', 'abcabc', 'abcabcabc', 'A_b_', 'x']
NAME_POOL = ['Ab', 'A_b', 'ab', 'AB', 'a', 'A', 'b', 'B', 'abc', 'Abc', 'a_bc', 'ABC', 'x', 'X', 'x_', '_x', 'bc', 'Bc',
             'abcabc', 'Route', 'T', 't']
RARE_POOL = ['String', 'List', 'Void', 'Int32', 'Omitted', 'Deprecated', 'Preview']      # built-in names
ROUTE_POOL = NAME_POOL + ['a/b', 'ab/c', 'a/bc', 'x/y', 'x/_y']
KEYWORDS = set('alias annotation annotation_type attrs by deprecated doc example error extends import namespace patch '
               'route struct union union_closed'.split())


def names_case(rng):
    files = []
    nss = rng.sample(NS_POOL, rng.choice([1, 1, 2, 2, 3]))
    for _ in range(rng.choice([1, 1, 2, 3])):
        ns = rng.choice(nss)
        items = []
        for _ in range(rng.choice([0, 1, 2, 2, 3, 4])):
            kind = rng.choice(['type', 'type', 'alias', 'annotation', 'annotation_type', 'route', 'route'])
            rare = rng.random() < 0.04
            if kind == 'route':
                items.append(['route', rng.choice(RARE_POOL if rare else ROUTE_POOL), rng.choice([1, 1, 2])])
            else:
                items.append([kind, rng.choice(RARE_POOL if rare else NAME_POOL)])
        files.append({'ns': ns, 'items': items})
    return files


NAMES_SEEDS = [
    # concatenation ambiguity of _get_base_name: Ab in c / A in bc
    [{'ns': 'c', 'items': [['type', 'Ab']]}, {'ns': 'bc', 'items': [['type', 'A']]}],
    [{'ns': 'abcabcabc', 'items': [['type', 'abc']]}, {'ns': 'abcabc', 'items': [['type', 'X']]}],
    [{'ns': 'abcabc', 'items': [['type', 'X']]}, {'ns': 'abcabcabc', 'items': [['type', 'abc']]}],
    [{'ns': 'a', 'items': [['annotation', 'Foo'], ['type', 'foo']]}],
    [{'ns': 'a', 'items': [['route', 'r', 1], ['type', 'r']]}],
    [{'ns': 'a', 'items': [['annotation_type', 'N'], ['type', 'N']]}],
    [{'ns': 'a', 'items': [['type', 'String']]}],
    [{'ns': 'a', 'items': [['route', 'get_x', 1], ['route', 'getX', 1]]}],
    [{'ns': 'a', 'items': [['route', 'r', 1], ['route', 'r', 1]]}],
    [{'ns': 'a_b', 'items': [['type', 'T']]}, {'ns': 'ab', 'items': [['type', 'T']]}],
    [{'ns': 'a_b', 'items': [['type', 'AB']]}],
]


def names_render(files):
    out = []
    for i, f in enumerate(files):
        lines = ['namespace %s' % f['ns'], '']
        for it in f['items']:
            k, n = it[0], it[1]
            if k == 'type':
                lines += ['struct %s' % n, '    f Int32', '']
            elif k == 'alias':
                lines += ['alias %s = Int32' % n, '']
            elif k == 'annotation':
                lines += ['annotation %s = Deprecated()' % n, '']
            elif k == 'annotation_type':
                lines += ['annotation_type %s' % n, '    "d"', '']
            else:
                lines += ['route %s:%d(Void, Void, Void)' % (n, it[2]), '']
        out.append(['f%d.stone' % i, '\n'.join(lines) + '\n'])
    return out


def _canon_name(s):
    return s.replace('_', '').replace('/', '').lower()


def _canon_ns(s):
    return s.replace('_', '').lower()


BUILTIN_TYPES = ['Bytes', 'Boolean', 'Float32', 'Float64', 'Int32', 'Int64', 'List', 'Map', 'String', 'Timestamp',
                 'UInt32', 'UInt64', 'Void']
BUILTIN_ANNOS = ['Deprecated', 'Omitted', 'Preview', 'RedactedBlot', 'RedactedHash']


def names_legal(files):
    """independent Python evaluation of the naming rules (A8-A10, B19): -> (legal, first violated rule, ambiguous)"""
    decls = [(f['ns'], it) for f in files for it in f['items']]
    nss = [f['ns'] for f in files]
    rule = None
    for ns, it in decls:
        if it[1] in BUILTIN_TYPES:
            rule = rule or 'A8'
        if it[0] == 'annotation_type' and it[1] in BUILTIN_ANNOS:
            rule = rule or 'B19'
        for m in nss:
            if _canon_name(it[1]) == _canon_ns(m) and _canon_ns(ns) == _canon_ns(m):
                rule = rule or 'A10'
    for i in range(len(decls)):
        for j in range(i + 1, len(decls)):
            (n1, a), (n2, b) = decls[i], decls[j]
            if a[0] == 'route' and b[0] == 'route':
                if n1 == n2 and a[1] == b[1] and a[2] == b[2]:
                    rule = rule or 'A9'
            elif _canon_name(a[1]) == _canon_name(b[1]) and _canon_ns(n1) == _canon_ns(n2):
                rule = rule or ('A8' if (a[1] == b[1] and n1 == n2) else 'A10')
    parts = {(_canon_name(it[1]), _canon_ns(ns)) for ns, it in decls} | {(_canon_ns(m), _canon_ns(m)) for m in nss}
    joined = {}
    ambiguous = False
    for p in parts:
        if joined.setdefault(p[0] + '/' + p[1], p) != p:       # _get_base_name joins the parts with '/'
            ambiguous = True
    return rule is None, rule, ambiguous


def suite_names(ck, report='C01', n=None):
    rng = ck.rng
    n = n or ck.scale(1500, 20000)
    cases = [list(s) for s in NAMES_SEEDS]
    while len(cases) < n:
        cases.append(names_case(rng))
    specs = [names_render(c) for c in cases]
    real = compile_all([[tuple(s) for s in sp] for sp in specs])
    replies = driver_retry(ck, [{'op': 'fe.names', 'files': c} for c in cases])
    for c, sp, rv, mv in zip(cases, specs, real, replies):
        ck.case(('fe.names', repr(c)), nontrivial=sum(len(f['items']) for f in c) > 1)
        out = {'ok': 'ok', 'spec': 'spec', 'crash': 'crash'}[rv['k']]
        ck.hist('fe.names.real', out if out != 'crash' else 'crash:' + rv['exc'])
        if 'protocol_error' in mv:
            ck.disagree('fe.names', c, rv, mv)
            continue
        same = out == mv['out'] and (out != 'crash' or rv['exc'] == mv['exc'])
        if same:
            ck.agree('fe.names')
        else:
            ck.disagree('fe.names', c, rv, mv)
        legal, rule, ambiguous = names_legal(c)
        if legal != mv['noclash'] or ambiguous == mv['unambiguous']:
            ck.disagree('fe.names.spec', c, {'legal': legal, 'ambiguous': ambiguous}, mv)
        else:
            ck.agree('fe.names.spec')
        ck.hist('fe.names.legal', '%s/%s' % ('legal' if legal else rule, out))
        if out == 'crash':
            if report == 'C03':
                report_escape(ck, rv, sp, 'fe.names')
            else:
                ck.stat('fe.names.escapes_left_to_C03')
        elif report == 'C01':
            if out == 'ok' and not legal:
                ck.failing_input('C01: clashing names are accepted (%s)' % rule, {'kind': 'accepted', 'rule': rule},
                                 {'specs': sp, 'expect': 'refused', 'rule': rule, 'suite': 'fe.names', 'files': c})
            elif out == 'spec' and legal:
                sig = {'kind': 'refused', 'rule': 'A10', 'shape': 'concat-ambiguity' if ambiguous else 'other'}
                ck.failing_input('C01: a spec whose names obey the rules is refused', sig,
                                 {'specs': sp, 'expect': 'accepted', 'suite': 'fe.names', 'files': c,
                                  'message': spec_message(sp)})
    ck.sample({'suite': 'fe.names', 'files': cases[len(NAMES_SEEDS) + 1]})


# ================================================================================================ fe.literals

def _digits(n, lead='1'):
    return lead + '0' * n


# literals of unusual SIZE: where a conversion (int(), float(), re, strptime, len) can fail instead of a comparison
LITS_HUGE = [
    _digits(22), _digits(308), _digits(309), str(2 ** 1024), '-' + str(2 ** 1024), str(2 ** 1024 - 2 ** 970 - 1), _digits(400),
    '-' + _digits(400), _digits(1000), _digits(4299), '-' + _digits(4298), _digits(4300), _digits(4400), '9' * 4300,
    '1e308', '1.8e308', '1e309', '-1e309', '1e999', '2e400', '1e-400', '1e-999', '1e4000', '1e99999999999', '1e-99999999999',
    '0.' + '0' * 400 + '1', _digits(400) + '.5', '-' + _digits(310) + '.0',
    '"%s"' % ('a' * 1000), '"%s"' % ('a' * 100000), '"%s"' % ('9' * 5000), '"%s"' % ('%Y' * 3000), '"%s"' % ('(' * 300 + ')' * 300),
    '"a{99999999999999}"',
]
LITS_PLAIN = ['0', '1', '-1', '2147483648', '18446744073709551616', '0.0', '1.5', '-1.5', '-0.0', '""', '"a"', '"abc"', '"2020"',
              '"\\n\\t\\\\"', '"Ünï"', 'true', 'false', 'null', 'x', 'other', '[1]', '[]', '{"a": 1}', '{}']

LIT_TYPES = ['Int32', 'Int64', 'UInt32', 'UInt64', 'Float32', 'Float64', 'String', 'Boolean', 'Bytes', 'Timestamp("%Y")',
             'Float64(max_value=3)', 'Float32(min_value=-1)', 'Int64(min_value=0)', 'String(max_length=3)', 'String(pattern="[a-z]+")',
             'Float64?', 'String?', 'cmn.AF', 'cmn.AI', 'cmn.U', 'List(Float64)', 'Map(String, Float32)']
LIT_POSITIONS = ['default', 'example', 'attr', 'annot_pos', 'annot_kw', 'param_default']
LIT_ARG_SLOTS = ['Int64(max_value=%s)', 'UInt32(min_value=%s)', 'Float64(min_value=%s)', 'Float32(max_value=%s)', 'String(max_length=%s)',
                 'String(min_length=%s)', 'String(pattern=%s)', 'List(String, max_items=%s)', 'List(String, min_items=%s)', 'Timestamp(%s)']

_CMN = ('cmn.stone', 'namespace cmn\n\nunion U\n    x\n    y Int32\n\nalias AF = Float64\n\nalias AI = Int32(max_value=5)\n')


def literal_spec(pos, ty, lit):
    """a spec that is legal except (possibly) for the literal `lit` written at position `pos` for a value of type `ty`"""
    if pos == 'arg':
        return [('ns.stone', 'namespace ns\n\nstruct S\n    f %s\n' % (ty % lit))]
    if pos == 'default':
        return [_CMN, ('ns.stone', 'namespace ns\n\nimport cmn\n\nstruct S\n    f %s = %s\n' % (ty, lit))]
    if pos == 'example':
        val = {'List(Float64)': '[%s]' % lit, 'Map(String, Float32)': '{"k": %s}' % lit}.get(ty, lit)
        return [_CMN, ('ns.stone', 'namespace ns\n\nimport cmn\n\nstruct S\n    f %s\n    example default\n        f = %s\n' % (ty, val))]
    if pos == 'attr':
        return [_CMN, ('cfg.stone', 'namespace stone_cfg\n\nimport cmn\n\nstruct Route\n    k %s\n' % ty),
                ('ns.stone', 'namespace ns\n\nroute r(Void, Void, Void)\n    attrs\n        k = %s\n' % lit)]
    head = 'namespace ns\n\nimport cmn\n\nannotation_type AT\n    p %s%s\n\nannotation An = AT(%s)\n\nstruct S\n    f String\n        @An\n'
    if pos == 'annot_pos':
        return [_CMN, ('ns.stone', head % (ty, '', lit))]
    if pos == 'annot_kw':
        return [_CMN, ('ns.stone', head % (ty, '', 'p=%s' % lit))]
    if pos == 'param_default':
        return [_CMN, ('ns.stone', head % (ty, ' = %s' % lit, ''))]
    raise ValueError(pos)


def suite_literals(ck, report='C03', n_plain=None):
    """`fe.literals`: literals of every kind and of unusual size (integers of hundreds / thousands of digits, floats with
    huge exponents, very long strings) at every place a literal is converted or checked -- field defaults, example
    values, route attributes, annotation arguments (positional / keyword), annotation-type parameter defaults, type
    arguments -- for every primitive type (plain, bounded, nullable, behind an alias), unions, lists and maps.
    Oracle: the compiler returns or raises InvalidSpec (C03).  The huge literals are exhaustive over type x position;
    the ordinary ones are sampled."""
    rng = ck.rng
    combos = [(p, t, l) for p in LIT_POSITIONS for t in LIT_TYPES for l in LITS_HUGE]
    combos += [('arg', t, l) for t in LIT_ARG_SLOTS for l in LITS_HUGE + LITS_PLAIN]
    plain = [(p, t, l) for p in LIT_POSITIONS for t in LIT_TYPES for l in LITS_PLAIN]
    k = n_plain if n_plain is not None else ck.scale(800, len(plain))
    combos += plain if k >= len(plain) else rng.sample(plain, k)
    specs = [literal_spec(*c) for c in combos]
    verdicts = compile_all(specs, chunk=40)
    seen = set()
    for (pos, ty, lit), sp, v in zip(combos, specs, verdicts):
        shown = lit if len(lit) <= 40 else '%s...(%d chars)' % (lit[:12], len(lit))
        ck.case(('fe.literals', pos, ty, lit), nontrivial=True)
        ck.hist('fe.literals.position', pos)
        ck.hist('fe.literals.outcome', v['k'] if v['k'] != 'crash' else 'crash:' + v['exc'])
        if v['k'] != 'crash':
            continue
        if report != 'C03':
            ck.stat('fe.literals.escapes_left_to_C03')
            continue
        if (v['exc'], v['where']) in seen:
            continue
        seen.add((v['exc'], v['where']))
        ck.failing_input('C03: %s escapes the frontend (%s): %s literal %s for %s' % (v['exc'], v['where'], pos, shown, ty),
                         {'kind': 'escape', 'exc': v['exc'], 'where': v['where']},
                         {'specs': [list(f) for f in sp], 'origin': 'fe.literals', 'verdict': v, 'position': pos, 'type': ty,
                          'literal': shown})
    ck.sample({'suite': 'fe.literals', 'position': combos[0][0], 'type': combos[0][1], 'literal_chars': len(combos[0][2])})


# ================================================================================================ fe.annargs

# annotation types: name -> [(parameter, kind, required)]; kind: the literal kind a value must have (None = any)
ANN_BUILTIN = {
    'Deprecated': [], 'Preview': [], 'Omitted': [('omitted_caller', 'str', True)],
    'RedactedBlot': [('regex', 'regex', False)], 'RedactedHash': [('regex', 'regex', False)],
}
ANN_CUSTOM = {
    'T0': [], 'T1': [('x', 'int', True)], 'T2': [('x', 'int', True), ('y', 'str', False)],
    'T3': [('s', 'str', True), ('b', 'bool', False), ('fl', 'float', False)],
}
ANN_CUSTOM_TEXT = ('annotation_type T0\n    "d"\n\nannotation_type T1\n    x Int32\n\nannotation_type T2\n    x Int32\n    y String = "d"\n\n'
                   'annotation_type T3\n    s String\n    b Boolean = false\n    fl Float64 = 1.5\n\n')
ANN_VALUES = [('"a"', 'str'), ('"[a-z]+"', 'str'), ('3', 'int'), ('1.5', 'float'), ('true', 'bool'), ('null', 'null')]


def _kind_ok(want, have):
    """True / False / None (not judged): does a literal of kind `have` fit a parameter of kind `want`"""
    if want in ('str', 'regex'):
        return True if have == 'str' else (None if want == 'regex' or have == 'null' else False)
    if want == 'int':
        return True if have == 'int' else (None if have in ('bool', 'null') else False)
    if want == 'float':
        return True if have in ('float', 'int') else (None if have in ('bool', 'null') else False)
    if want == 'bool':
        return True if have == 'bool' else (None if have == 'null' else False)
    return None


def annargs_legal(params, builtin, pos, kw):
    """independent evaluation of the argument rules (B18, B22; lang_ref "Annotations"): True legal, False illegal,
    None not judged (value kinds of the built-in types, booleans as numbers, null)"""
    names = [p for p, _k, _r in params]
    if pos and kw:
        return False                                  # B18: positional and keyword arguments mixed
    if len(pos) > len(params):
        return False                                  # too many
    keys = [k for k, _v in kw]
    if len(set(keys)) != len(keys) or any(k not in names for k in keys):
        return False                                  # a keyword twice / unknown
    given = dict(zip(names, pos))
    given.update(dict(kw))
    if any(r and p not in given for p, _k, r in params):
        return False                                  # a required argument is missing
    verdict = True
    for p, k, _r in params:
        if p in given:
            fit = _kind_ok(k, given[p][1])
            if builtin and k != 'regex' and fit is False:
                fit = None                            # the built-in types do not check the kind of their arguments
            if fit is False:
                return False
            if fit is None:
                verdict = None
    return verdict


def annargs_grid(rng, cap):
    """(type name, positional [(text, kind)], keyword [(name, (text, kind))], with parentheses) -- every shape of up
    to 3 positional and up to 2 keyword arguments over the parameter names of the type (+ an unknown one, + a name of
    another type), the same name twice, positional and keyword mixed, the bare `annotation A = T` form"""
    out = []
    v0 = ANN_VALUES
    for tname, params in list(ANN_BUILTIN.items()) + list(ANN_CUSTOM.items()):
        names = [p for p, _k, _r in params] + ['bogus'] + (['regex'] if tname == 'Omitted' else ['omitted_caller'] if tname in ANN_BUILTIN else ['regex'])
        pos_shapes = [[]] + [[v] for v in v0] + [[a, b] for a in v0[:3] for b in (v0[0], v0[2])] + [[v0[0], v0[2], v0[0]], [v0[2], v0[0], v0[3]]]
        kw_shapes = [[]] + [[(n, v)] for n in names for v in (v0[0], v0[2], v0[4], v0[5])]
        kw_shapes += [[(a, v0[0]), (b, v0[2])] for a in names for b in names] + [[(a, v0[2]), (b, v0[0])] for a in names[:2] for b in names[:2]]
        out.append((tname, [], [], False))
        for ps in pos_shapes:
            for ks in kw_shapes:
                out.append((tname, ps, ks, True))
    if cap and len(out) > cap:
        # keep every mixed / duplicated / arity shape with the first value of each slot, sample the rest
        key = [o for o in out if all(v == v0[0] or v == v0[2] for v in o[1]) and len(o[2]) != 1]
        rest = [o for o in out if o not in key]
        out = key + rng.sample(rest, max(0, cap - len(key)))
    return out


def annargs_spec(tname, pos, kw, parens):
    args = ', '.join([t for t, _k in pos] + ['%s=%s' % (n, v[0]) for n, v in kw])
    expr = '%s(%s)' % (tname, args) if parens else tname
    return [('ns.stone', 'namespace ns\n\n%sannotation An = %s\n\nstruct S\n    f String\n        @An\n'
             % (ANN_CUSTOM_TEXT if tname in ANN_CUSTOM else '', expr))]


def suite_annargs(ck, report='C01', cap=None):
    """`fe.annargs`: a systematic grid of argument shapes for every built-in annotation type and four custom ones, like
    `fe.params` for the built-in data types.  C03: nothing but InvalidSpec escapes.  C01: the shape rules (B18 mixed
    positional / keyword, B22 too many / unknown / missing / wrong kind, a keyword twice) against acceptance."""
    rng = ck.rng
    grid = annargs_grid(rng, cap or 0)
    specs = [annargs_spec(*g) for g in grid]
    verdicts = compile_all(specs, chunk=40)
    seen = set()
    for (tname, pos, kw, parens), sp, v in zip(grid, specs, verdicts):
        builtin = tname in ANN_BUILTIN
        params = (ANN_BUILTIN if builtin else ANN_CUSTOM)[tname]
        legal = annargs_legal(params, builtin, pos, kw)
        shape = 'pos%d/kw%d%s%s' % (len(pos), len(kw), '/mixed' if pos and kw else '', '/dupkw' if len({k for k, _ in kw}) < len(kw) else '')
        ck.case(('fe.annargs', tname, repr(pos), repr(kw), parens), nontrivial=True)
        ck.hist('fe.annargs.type', tname)
        ck.hist('fe.annargs.shape', shape)
        ck.hist('fe.annargs.legal', '%s/%s' % ({True: 'legal', False: 'illegal', None: 'not-judged'}[legal],
                                               v['k'] if v['k'] != 'crash' else 'crash:' + v['exc']))
        expr = sp[0][1].split('annotation An = ')[1].split('\n')[0]
        case = {'specs': [list(f) for f in sp], 'origin': 'fe.annargs', 'verdict': v, 'expr': expr, 'suite': 'fe.annargs'}
        if v['k'] == 'crash':
            if report == 'C03':
                if (v['exc'], v['where']) not in seen:
                    seen.add((v['exc'], v['where']))
                    ck.failing_input('C03: %s escapes the frontend (%s): annotation An = %s' % (v['exc'], v['where'], expr),
                                     {'kind': 'escape', 'exc': v['exc'], 'where': v['where']}, case)
            else:
                ck.stat('fe.annargs.escapes_left_to_C03')
        elif report == 'C01':
            kind = 'builtin' if builtin else 'custom'
            if v['k'] == 'ok' and legal is False:
                ck.failing_input('C01: an illegal annotation argument list is accepted: %s' % expr,
                                 {'kind': 'accepted', 'rule': 'B18/B22', 'shape': '%s:%s' % (kind, shape)},
                                 dict(case, expect='refused', rule='B18/B22'))
            elif v['k'] == 'spec' and legal is True:
                ck.failing_input('C01: a legal annotation argument list is refused: %s' % expr,
                                 {'kind': 'refused', 'rule': 'B18/B22', 'shape': '%s:%s' % (kind, shape)},
                                 dict(case, expect='accepted', rule='B18/B22', message=spec_message(sp)))
    ck.sample({'suite': 'fe.annargs', 'expr': annargs_spec(*grid[len(grid) // 2])[0][1].split('annotation An = ')[1].split('\n')[0]})


# ================================================================================================ fe.exvalues
#
# "Examples ... that fit their types": a systematic grid of (type expression, example value) like `fe.params` for type
# arguments.  A type is a small tree over the built-in types
#     ('p', name, positional, keywords)   primitive           ('n', T)  T?           ('a', T)  alias X = T
#     ('l', T, min_items, max_items)      List                ('m', K, V)  Map(K, V)
# and `ex_fits` states, from the "Basic Types" table and the "Examples" section of docs/lang_ref.rst (NOT from the code),
# whether a value fits: every part of the value -- the field value, every list item, every map KEY and every map value,
# at any depth and behind aliases / nullables -- must be of the right kind and inside every bound of the type at its
# position.  Verdict True / False / None (not judged).

def P(name, *pos, **kw):
    return ('p', name, pos, kw)


def N(t):
    return ('n', t)


def A(t):
    return ('a', t)


def L(t, lo=None, hi=None):
    return ('l', t, lo, hi)


def M(k, v):
    return ('m', k, v)


_XINT = {'Int32': (-2 ** 31, 2 ** 31 - 1), 'UInt32': (0, 2 ** 32 - 1), 'Int64': (-2 ** 63, 2 ** 63 - 1), 'UInt64': (0, 2 ** 64 - 1)}
_XF32 = 3.40282e38


def _prim_fits(name, pos, kw, v):
    """(verdict, aspect) for a non-null value against a primitive type"""
    if name in _XINT:
        if isinstance(v, bool):
            return None, 'bool-as-number'
        if not isinstance(v, int):
            return False, 'kind'
        lo, hi = _XINT[name]
        if not lo <= v <= hi:
            return False, 'range'
        if kw.get('min_value') is not None and v < kw['min_value']:
            return False, 'min_value'
        if kw.get('max_value') is not None and v > kw['max_value']:
            return False, 'max_value'
        return True, None
    if name in ('Float32', 'Float64'):
        if isinstance(v, bool):
            return None, 'bool-as-number'
        if not isinstance(v, (int, float)):
            return False, 'kind'
        try:
            x = float(v)
        except OverflowError:
            return None, 'huge'
        if math.isinf(x) or math.isnan(x):
            return None, 'inf'
        if isinstance(v, int) and x != v:
            # an integer that no double equals: the repaired compiler (/repo ee06dfb) refuses it for a float member
            # (C10: the example could not be encoded back to the same document); the lang_ref is silent, so not judged
            return None, 'inexact-integer'
        if name == 'Float32' and abs(x) > _XF32:
            return (False, 'range') if abs(x) > 2 * _XF32 else (None, 'edge')
        if kw.get('min_value') is not None and x < kw['min_value']:
            return False, 'min_value'
        if kw.get('max_value') is not None and x > kw['max_value']:
            return False, 'max_value'
        return True, None
    if name == 'Boolean':
        return (True, None) if isinstance(v, bool) else (False, 'kind')
    if name == 'Bytes':
        if not isinstance(v, str):
            return False, 'kind'
        # an example of a Bytes member is the base64 text of the bytes (json_serializer.rst: "Bytes: Base64-encoded")
        import base64
        import binascii
        try:
            raw = base64.b64decode(v.encode('ascii'), validate=True)
        except (binascii.Error, ValueError, UnicodeEncodeError):
            return False, 'base64'
        if base64.b64encode(raw).decode('ascii') != v:
            return None, 'base64-noncanonical'   # decodable but not what an encoder writes: not judged here (C10's matter)
        return True, None
    if name == 'String':
        if not isinstance(v, str):
            return False, 'kind'
        if kw.get('max_length') is not None and len(v) > kw['max_length']:
            return False, 'max_length'
        if kw.get('min_length') is not None and len(v) < kw['min_length']:
            return False, 'min_length'
        pat = kw.get('pattern')
        if pat:
            if re.match(pat, v) is None:
                return False, 'pattern'          # no match even of a prefix: fails under every reading of "validation"
            if re.fullmatch(pat, v) is None:
                return None, 'pattern-prefix'    # whether the pattern must cover the whole string is not judged
        return True, None
    if name == 'Timestamp':
        if not isinstance(v, str):
            return None, 'kind'                  # strptime of a non-string: whatever happens is C03's business
        import datetime
        try:
            datetime.datetime.strptime(v, pos[0])
            return True, None
        except ValueError:
            return False, 'format'
    raise ValueError(name)


def ex_fits(t, v, where='field'):
    """-> (verdict, aspect, where, type name) -- the first misfit in reading order decides; else None if any part
    is not judged; else True"""
    k = t[0]
    if k == 'a':
        return ex_fits(t[1], v, where)
    if k == 'n':
        return (True, None, where, 'Nullable') if v is None else ex_fits(t[1], v, where)
    name = {'l': 'List', 'm': 'Map'}.get(k) or t[1]
    if v is None:
        return False, 'null', where, name
    if k == 'p':
        if isinstance(v, (list, dict)):
            return False, 'kind', where, name
        verdict, aspect = _prim_fits(t[1], t[2], t[3], v)
        return verdict, aspect, where, name
    if k == 'l':
        if not isinstance(v, list):
            return False, 'kind', where, name
        if t[3] is not None and len(v) > t[3]:
            return False, 'max_items', where, name
        if t[2] is not None and len(v) < t[2]:
            return False, 'min_items', where, name
        parts = [ex_fits(t[1], x, 'item') for x in v]
    else:
        if not isinstance(v, dict):
            return False, 'kind', where, name
        parts = []
        for key, val in v.items():
            parts.append(ex_fits(t[1], key, 'key'))
            parts.append(ex_fits(t[2], val, 'value'))
    for p in parts:
        if p[0] is False:
            return p
    for p in parts:
        if p[0] is None:
            return p
    return True, None, where, name


def xt_text(t, aliases):
    """the type expression as written; every ('a', T) adds `alias ZqAn = T` to `aliases`"""
    from harness import specgen
    k = t[0]
    if k == 'p':
        args = [specgen.lit(a) for a in t[2]] + ['%s=%s' % (n, specgen.lit(x)) for n, x in t[3].items()]
        return t[1] + ('(%s)' % ', '.join(args) if args else '')
    if k == 'n':
        return xt_text(t[1], aliases) + '?'
    if k == 'a':
        inner = xt_text(t[1], aliases)
        name = 'ZqA%d' % len(aliases)
        aliases.append('alias %s = %s' % (name, inner))
        return name
    if k == 'l':
        args = [xt_text(t[1], aliases)] + ['%s=%d' % (n, x) for n, x in (('min_items', t[2]), ('max_items', t[3])) if x is not None]
        return 'List(%s)' % ', '.join(args)
    return 'Map(%s, %s)' % (xt_text(t[1], aliases), xt_text(t[2], aliases))


def _ml_lines(prefix, d, suffix, ind):
    """a map literal over several lines, as in lang_ref "Map examples can also be multiline" """
    from harness import specgen
    out = [' ' * ind + prefix + '{']
    items = list(d.items())
    for i, (k, v) in enumerate(items):
        comma = '' if i == len(items) - 1 else ','
        if isinstance(v, dict) and v:
            out += _ml_lines(specgen.lit(k) + ': ', v, comma, ind + 4)
        else:
            out.append(' ' * (ind + 4) + specgen.lit(k) + ': ' + specgen.lit(v) + comma)
    out.append(' ' * ind + '}' + suffix)
    return out


def exvalue_spec(t, v, host='struct', multiline=False):
    """a spec that is legal except (possibly) for the example value `v` given to a member of type `t`.
    host: struct | union (the member is a tag) | child (the field is inherited, the example sits in the child)"""
    from harness import specgen
    aliases = []
    text = xt_text(t, aliases)
    lines = ['namespace ns', '']
    for a in aliases:
        lines += [a, '']
    if multiline and isinstance(v, dict) and v:
        ex = _ml_lines('f = ', v, '', 8)
    else:
        ex = ['        f = ' + specgen.lit(v)]
    if host == 'union':
        lines += ['union S', '    g', '    f %s' % text, '    example default'] + ex
    elif host == 'child':
        lines += ['struct B', '    f %s' % text, '', 'struct S extends B', '    g Int32', '    example default', '        g = 1'] + ex
    else:
        lines += ['struct S', '    f %s' % text, '    example default'] + ex
    return [('ns.stone', '\n'.join(lines) + '\n')]


XV_INTS = [0, 1, -1, 2, 3, 5, 6, -3, -4, 10, 11, 2 ** 31 - 1, 2 ** 31, -2 ** 31, -2 ** 31 - 1, 2 ** 32 - 1, 2 ** 32, 2 ** 63 - 1,
           2 ** 63, -2 ** 63, -2 ** 63 - 1, 2 ** 64 - 1, 2 ** 64]
XV_FLOATS = [0.0, 0.5, 1.5, -1.5, -1.6, 2.5, 2.6, 3.5, 1e39, -1e39]
XV_STRS = ['', 'a', 'ab', 'abc', 'abcd', 'abcde', 'AB', 'Ab', 'a1', 'ab1', '12', '2020-01-31', '2020-13-01', 'x y']
XV_OTHER = [True, False, None, [], [1], ['a'], {}, {'a': 1}]
XV_POOL = XV_INTS + XV_FLOATS + XV_STRS + XV_OTHER

XT_STRINGS = [P('String'), P('String', min_length=2), P('String', max_length=3), P('String', pattern='[a-z]+$'),
              P('String', pattern='[a-z]+'), P('String', min_length=2, max_length=4, pattern='[a-z0-9]*$')]
XT_LEAVES = [P('Int32'), P('Int32', min_value=-3, max_value=5), P('UInt32'), P('UInt32', max_value=10), P('Int64'),
             P('Int64', min_value=2), P('UInt64'), P('UInt64', min_value=1, max_value=10),
             P('Float32'), P('Float32', max_value=2.5), P('Float64'), P('Float64', min_value=-1.5, max_value=2.5),
             P('Boolean'), P('Bytes'), P('Timestamp', '%Y-%m-%d')] + XT_STRINGS
_S = P('String')

# contexts of a leaf: name -> (type around the leaf T, value around the leaf value v given a fitting value g, host)
XV_CONTEXTS = [
    ('nullable', lambda T: N(T), lambda v, g: v, 'struct'),
    ('alias', lambda T: A(T), lambda v, g: v, 'struct'),
    ('alias-of-nullable', lambda T: A(N(T)), lambda v, g: v, 'struct'),
    ('alias-chain', lambda T: A(A(T)), lambda v, g: v, 'struct'),
    ('nullable-alias', lambda T: N(A(T)), lambda v, g: v, 'struct'),
    ('inherited', lambda T: T, lambda v, g: v, 'child'),
    ('tag', lambda T: T, lambda v, g: v, 'union'),
    ('tag-alias', lambda T: A(T), lambda v, g: v, 'union'),
    ('list', lambda T: L(T), lambda v, g: [v], 'struct'),
    ('list-later-item', lambda T: L(T), lambda v, g: [g, g, v], 'struct'),
    ('list-bounded', lambda T: L(T, 1, 2), lambda v, g: [g, v], 'struct'),
    ('list-of-nullable', lambda T: L(N(T)), lambda v, g: [None, v], 'struct'),
    ('nullable-list', lambda T: N(L(T)), lambda v, g: [v], 'struct'),
    ('list-of-list', lambda T: L(L(T)), lambda v, g: [[g], [v]], 'struct'),
    ('alias-of-list', lambda T: A(L(T)), lambda v, g: [v], 'struct'),
    ('list-of-alias', lambda T: L(A(T)), lambda v, g: [v], 'struct'),
    ('tag-list', lambda T: L(T), lambda v, g: [g, v], 'union'),
    ('inherited-list', lambda T: L(T), lambda v, g: [v], 'child'),
    ('map-value', lambda T: M(_S, T), lambda v, g: {'k': v}, 'struct'),
    ('map-later-value', lambda T: M(_S, T), lambda v, g: {'k': g, 'j': v}, 'struct'),
    ('map-of-nullable', lambda T: M(_S, N(T)), lambda v, g: {'k': None, 'j': v}, 'struct'),
    ('map-of-list', lambda T: M(_S, L(T)), lambda v, g: {'k': [g, v]}, 'struct'),
    ('map-of-map', lambda T: M(_S, M(_S, T)), lambda v, g: {'k': {'j': v}}, 'struct'),
    ('nullable-map', lambda T: N(M(_S, T)), lambda v, g: {'k': v}, 'struct'),
    ('alias-of-map', lambda T: A(M(_S, T)), lambda v, g: {'k': v}, 'struct'),
    ('map-of-alias', lambda T: M(_S, A(T)), lambda v, g: {'k': v}, 'struct'),
    ('tag-map', lambda T: M(_S, T), lambda v, g: {'k': v}, 'union'),
    ('inherited-map', lambda T: M(_S, T), lambda v, g: {'k': v}, 'child'),
]
# contexts of a map KEY: (type around the key type K, value around the key k given a fitting key g, host)
XV_KEY_CONTEXTS = [
    ('key', lambda K: M(K, P('Int32')), lambda k, g: {k: 1}, 'struct'),
    ('later-key', lambda K: M(K, P('Int32')), lambda k, g: {g: 1, k: 2}, 'struct'),
    ('key-of-string-map', lambda K: M(K, _S), lambda k, g: {k: 'v'}, 'struct'),
    ('key-of-list-map', lambda K: M(K, L(P('Int32'))), lambda k, g: {k: [1]}, 'struct'),
    ('key-of-map-map', lambda K: M(K, M(_S, P('Int32'))), lambda k, g: {k: {'j': 1}}, 'struct'),
    ('inner-key', lambda K: M(_S, M(K, P('Int32'))), lambda k, g: {'k': {g: 1}, 'j': {k: 1}}, 'struct'),
    ('nullable-map-key', lambda K: N(M(K, P('Int32'))), lambda k, g: {k: 1}, 'struct'),
    ('alias-of-map-key', lambda K: A(M(K, P('Int32'))), lambda k, g: {k: 1}, 'struct'),
    ('alias-of-nullable-map-key', lambda K: A(N(M(K, P('Int32')))), lambda k, g: {k: 1}, 'struct'),
    ('tag-map-key', lambda K: M(K, P('Int32')), lambda k, g: {k: 1}, 'union'),
    ('inherited-map-key', lambda K: M(K, P('Int32')), lambda k, g: {g: 1, k: 2}, 'child'),
]
XV_KEYS = XV_STRS + [1, 0, 1.5, True, None]


def _writable(v, in_list=False):
    """can the value be written as an example?  (no map literal inside a list literal: grammar ex_list_item)"""
    if isinstance(v, dict):
        return not in_list and all(_writable(x) for x in v.values())
    if isinstance(v, list):
        return all(_writable(x, True) for x in v)
    return True


def _representatives(T, pool):
    """values of the pool for a leaf type: two that fit, one per way of not fitting"""
    good, bad = [], {}
    for v in pool:
        verdict, aspect, _w, _n = ex_fits(T, v)
        if verdict is True and len(good) < 2 and v is not None:
            good.append(v)
        elif verdict is False:
            bad.setdefault((aspect, type(v).__name__), v)
    return good, list(bad.values())


_XV_NATURAL = {'Int32': (int,), 'UInt32': (int,), 'Int64': (int,), 'UInt64': (int,), 'Float32': (int, float), 'Float64': (int, float),
               'Boolean': (bool,), 'Bytes': (str,), 'String': (str,), 'Timestamp': (str,)}
XT_CORE = [P('Int32', min_value=-3, max_value=5), P('Float64', min_value=-1.5, max_value=2.5), P('Boolean'), P('Timestamp', '%Y-%m-%d'),
           P('String', min_length=2, max_length=4, pattern='[a-z0-9]*$')]
XV_KEYS_QUICK = ['', 'a', 'ab', 'abcd', 'abcde', 'AB', 'ab1', '12', 1, 1.5, True, None]


def _plain_field_value(T, v, nth_of_kind):
    """quick tier: every value of the leaf's own kind (for the float types only the small integers and one huge one),
    every boolean / null / list / map, two of every other kind"""
    kind, nat = type(v), _XV_NATURAL[T[1]]
    if kind in (bool, list, dict, type(None)):
        return True
    if kind not in nat:
        return nth_of_kind <= 2
    if kind is int and float in nat:
        return abs(v) <= 11 or v == 2 ** 64
    return True


def exvalues_grid(rng, full):
    """[(context name, type, value, host, multiline)].  The systematic part (every leaf type with every value of its
    own kind and two of every other kind as a plain field; five leaf types in every context; every key type in every
    key context) runs in every tier; `full` = every leaf type with every pool value in every context."""
    out = []
    for T in XT_LEAVES:
        core_leaf = full or T in XT_CORE
        per_kind = {}
        for v in XV_POOL:
            per_kind[type(v)] = per_kind.get(type(v), 0) + 1
            if full or _plain_field_value(T, v, per_kind[type(v)]):
                out.append(('field', T, v, 'struct', False))
        good, bad = _representatives(T, XV_POOL)
        g = good[0]
        contexts = XV_CONTEXTS if core_leaf else rng.sample(XV_CONTEXTS, 4)
        for name, wrap_t, wrap_v, host in contexts:
            for v in (good if full else good[:1]) + bad + [None]:
                out.append((name, wrap_t(T), wrap_v(v, g), host, False))
        if not core_leaf:
            continue
        # the container itself: a value of the wrong kind where a list / a map is expected, and the length bounds
        for v in (g, [g], {'k': g}, None):
            out.append(('list-kind', L(T), v, 'struct', False))
            out.append(('map-kind', M(_S, T), v, 'struct', False))
            out.append(('list-of-list-kind', L(L(T)), [v], 'struct', False))
            out.append(('map-of-list-kind', M(_S, L(T)), {'k': v}, 'struct', False))
            out.append(('map-of-map-kind', M(_S, M(_S, T)), {'k': v}, 'struct', False))
        for n in range(5):
            out.append(('list-length', L(T, 1, 3), [g] * n, 'struct', False))
            out.append(('list-length-in-map', M(_S, L(T, 2, 3)), {'k': [g] * n}, 'struct', False))
            out.append(('list-length-in-list', L(L(T, None, 2)), [[g], [g] * n], 'struct', False))
            out.append(('list-length-alias', A(L(T, 2, None)), [g] * n, 'union', False))
    for K in XT_STRINGS:
        good, _bad = _representatives(K, XV_STRS)
        for k in (XV_KEYS if full else XV_KEYS_QUICK):
            g = [x for x in good if x != k][0]
            for name, wrap_t, wrap_v, host in XV_KEY_CONTEXTS:
                v = wrap_v(k, g)
                out.append((name, wrap_t(K), v, host, False))
                if full or name in ('key', 'later-key', 'inner-key'):
                    out.append((name + '/multiline', wrap_t(K), v, host, True))
    seen, res = set(), []
    for c in out:
        key = (repr(c[1]), repr(c[2]), c[3], c[4])
        if _writable(c[2]) and key not in seen:
            seen.add(key)
            res.append(c)
    return res


def suite_exvalues(ck, report='C01'):
    """`fe.exvalues`: example values against the types of the members they are given to.  Direct oracle on the real
    compiler: a value that does not fit (by `ex_fits`) must be refused with InvalidSpec, one that fits must compile."""
    grid = exvalues_grid(ck.rng, ck.scale(False, True))
    specs = [exvalue_spec(t, v, host, ml) for _n, t, v, host, ml in grid]
    verdicts = compile_all(specs, chunk=60)
    seen = set()
    for (ctx, t, v, host, ml), sp, rv in zip(grid, specs, verdicts):
        verdict, aspect, where, tname = ex_fits(t, v)
        ck.case(('fe.exvalues', sp[0][1]), nontrivial=True)
        out = rv['k'] if rv['k'] != 'crash' else 'crash:' + rv['exc']
        ck.hist('fe.exvalues.context', ctx.split('/')[0])
        ck.hist('fe.exvalues.legal', '%s/%s' % ({True: 'fits', False: 'misfit', None: 'not-judged'}[verdict], out))
        if verdict is False:
            ck.hist('fe.exvalues.misfit', '%s:%s:%s' % (where, tname, aspect))
        case = {'specs': [list(f) for f in sp], 'origin': 'fe.exvalues', 'verdict': rv, 'context': ctx, 'suite': 'fe.exvalues',
                'value': repr(v)}
        if rv['k'] == 'crash':
            if report == 'C03':
                if (rv['exc'], rv['where']) not in seen:
                    seen.add((rv['exc'], rv['where']))
                    ck.failing_input('C03: %s escapes the frontend (%s): example value %r' % (rv['exc'], rv['where'], v),
                                     {'kind': 'escape', 'exc': rv['exc'], 'where': rv['where']}, case)
            else:
                ck.stat('fe.exvalues.escapes_left_to_C03')
                ck.hist('fe.exvalues.escape', '%s@%s' % (rv['exc'], rv['where']))
        elif report == 'C01':
            if rv['k'] == 'ok' and verdict is False:
                ck.failing_input('C01: an example value that does not fit its type is accepted (%s of %s: %s; context %s)'
                                 % (where, tname, aspect, ctx),
                                 {'kind': 'accepted', 'rule': 'C3', 'where': where, 'type': tname, 'aspect': aspect},
                                 dict(case, expect='refused', rule='C3'))
            elif rv['k'] == 'spec' and verdict is True:
                msg = spec_message(sp)
                ck.failing_input('C01: an example value that fits its type is refused (context %s): %s' % (ctx, msg),
                                 {'kind': 'refused', 'rule': 'C3', 'context': ctx.split('/')[0], 'message': _msg_shape(msg)},
                                 dict(case, expect='accepted', rule='C3', message=msg))
    ck.sample({'suite': 'fe.exvalues', 'spec': specs[len(specs) // 2][0][1]})


# ================================================================================================ fe.sites
#
# A fixed catalogue of minimal specs, run in every tier: for every language rule that the random injections reach only
# now and then (or through one phrasing only) the smallest spec that breaks it -- and beside it the nearest spec that
# is legal, so that a rule applied too eagerly shows as a refusal.  Written by hand from docs/lang_ref.rst; the
# expected verdict never comes from the compiler.  (rule id of DESIGN Appendix A, name, expected, files)

_NS = 'namespace ns\n\n'


def _one(text, *more):
    return [('ns.stone', _NS + text)] + list(more)


_CFG = lambda fields: ('cfg.stone', 'namespace stone_cfg\n\n%sstruct Route\n%s' % (   # noqa: E731
    'import ns\n\n' if 'ns.' in fields else '', ''.join('    %s\n' % f for f in fields.split(';'))))
_ROUTE = lambda attrs: 'route r(Void, Void, Void)\n    attrs\n%s' % ''.join('        %s\n' % a for a in attrs.split(';'))  # noqa: E731
_FAR = ('far.stone', 'namespace far\n\nstruct FarS\n    ff Int32\n\nalias FarA = Int32\n\nannotation FarAn = Deprecated()\n\n'
                     'annotation_type FarT\n    "d"\n\nroute far_r(Void, Void, Void)\n')
_OTHER = ('other.stone', 'namespace other\n\nstruct OtherS\n    of Int32\n')


def sites_catalogue():
    R, A = 'refused', 'accepted'
    c = []

    def add(rule, name, expect, specs):
        c.append((rule, name, expect, [tuple(f) for f in specs]))

    # ---- syntax / layout
    for kw in ('namespace', 'doc', 'example', 'error'):
        add('S4.alias', 'keyword-%s-for-alias' % kw, R, _one('%s A = String\n' % kw))
    add('S4.alias', 'alias', A, _one('alias A = String\n'))
    add('S11', 'list-as-map-key', R, _one('struct S\n    m Map(String, Int32)\n    example default\n        m = {[1]: 2}\n'))
    add('S11', 'map-as-map-key', R, _one('struct S\n    m Map(String, Int32)\n    example default\n        m = {{"a": 1}: 2}\n'))
    add('S11', 'list-as-inner-map-key', R, _one('struct S\n    m Map(String, Map(String, Int32))\n    example default\n        m = {"k": {["j"]: 1}}\n'))
    add('S11', 'string-as-map-key', A, _one('struct S\n    m Map(String, Int32)\n    example default\n        m = {"a": 2}\n'))
    for name, text in (('struct-header', 'struct S'), ('struct-header-nl', 'struct S\n'), ('union-header', 'union U\n'),
                       ('child-header', 'struct B\n    f Int32\n\nstruct S extends B'), ('route-open', 'route r('),
                       ('route-comma', 'route r(Void,\n'), ('patch-header', 'struct S\n    f Int32\n\npatch struct S\n')):
        add('S12', 'file-ends-after-' + name, R, _one(text))
    add('S12', 'file-ends-after-last-member-without-newline', A, _one('union U\n    a\n    b'))
    for name, text in (('alias', 'alias A = String)\n'), ('alias-args', 'alias A = List(String))\n'), ('route', 'route r(Void, Void, Void))\n'),
                       ('field', 'struct S\n    f Int32)\n'), ('header', 'struct S)\n    f Int32\n'), ('tag', 'union U\n    a)\n'),
                       ('default', 'struct S\n    f Int32 = 1)\n'), ('example', 'struct S\n    f Int32\n    example default\n        f = 1)\n')):
        add('S13', 'unmatched-parenthesis-' + name, R, _one(text))
    add('S13', 'matched-parentheses', A, _one('alias A = List(String(min_length=1))\n'))
    big = '9' * 4400
    add('A20', 'bound-of-4400-digits', R, _one('struct S\n    f UInt64(max_value=%s)\n' % big))
    add('A27', 'default-of-4400-digits', R, _one('struct S\n    f Int64 = %s\n' % big))
    add('C3', 'example-of-4400-digits', R, _one('struct S\n    f UInt64\n    example default\n        f = %s\n' % big))
    add('C3', 'negative-example-of-4400-digits', R, _one('struct S\n    f Int64\n    example default\n        f = -%s\n' % big))
    add('C3', 'example-of-19-digits', A, _one('struct S\n    f UInt64\n    example default\n        f = 9999999999999999999\n'))

    add('S1', 'illegal-character-alone-on-a-line', R, _one('struct S\n    f Int32\n$\nstruct T\n    g Int32\n'))
    add('S1', 'illegal-character-alone-on-the-last-line', R, _one('struct S\n    f Int32\n;\n'))
    add('A2', 'namespace-doc-in-two-files', A, [('a.stone', 'namespace ns\n    "One."\n\nalias A = String\n'),
                                                ('b.stone', 'namespace ns\n    "Two."\n\nalias B = String\n')])

    # ---- defaults
    add('A27', 'null-default-on-string', R, _one('struct S\n    f String = null\n'))
    add('A27', 'null-default-on-int', R, _one('struct S\n    f Int32 = null\n'))
    for v in ('1', '"a"', 'true', '1.5'):
        add('A27', 'literal-%s-as-union-default' % v, R, _one('union U\n    a\n    b Int32\n\nstruct S\n    u U = %s\n' % v))
    add('A27', 'literal-as-aliased-union-default', R, _one('union U\n    a\n\nalias UA = U\n\nstruct S\n    u UA = 1\n'))
    add('A27', 'tag-as-union-default', A, _one('union U\n    a\n    b Int32\n\nstruct S\n    u U = a\n'))
    add('A27', 'tag-as-aliased-union-default', A, _one('union U\n    a\n\nalias UA = U\n\nstruct S\n    u UA = a\n'))
    add('A27', 'default-beyond-float64', R, _one('struct S\n    f Float64 = 1e999\n'))
    add('A27', 'integer-default-beyond-float64', R, _one('struct S\n    f Float64 = 1%s\n' % ('0' * 400)))
    add('C3', 'example-beyond-float64', R, _one('struct S\n    f Float64\n    example default\n        f = 1e999\n'))
    add('C3', 'negative-example-beyond-float64', R, _one('struct S\n    f Float64\n    example default\n        f = -1e999\n'))
    add('C3', 'integer-example-beyond-float64', R, _one('struct S\n    f Float64\n    example default\n        f = 1%s\n' % ('0' * 400)))
    add('C3', 'integer-example-beyond-float32', R, _one('struct S\n    f Float32\n    example default\n        f = 1%s\n' % ('0' * 40)))
    add('C3', 'large-float64-example', A, _one('struct S\n    f Float64\n    example default\n        f = 1e308\n'))

    # ---- type references
    for name, decl, ref in (('annotation', 'annotation An = Deprecated()\n\n', 'An'), ('annotation-type', 'annotation_type AT\n    "d"\n\n', 'AT'),
                            ('namespace', 'import far\n\n', 'far'), ('imported-annotation', 'import far\n\n', 'far.FarAn'),
                            ('imported-annotation-type', 'import far\n\n', 'far.FarT')):
        for pos, text in (('field', 'struct S\n    f %s\n'), ('nullable-field', 'struct S\n    f %s?\n'), ('list-item', 'struct S\n    f List(%s)\n'),
                          ('tag', 'union U\n    t %s\n'), ('alias', 'alias X = %s\n'), ('route-arg', 'route r(%s, Void, Void)\n'),
                          ('parent', 'struct S extends %s\n    g Int32\n')):
            add('A13.kind', '%s-as-%s-type' % (name, pos), R, _one(decl + text % ref, _FAR))
    add('A13.kind', 'imported-struct-as-field-type', A, _one('import far\n\nstruct S\n    f far.FarS\n    g far.FarA\n', _FAR))
    add('A22.notype', 'struct-field-without-type', R, _one('struct S\n    f\n'))
    add('A22.notype', 'second-struct-field-without-type', R, _one('struct S\n    a Int32\n    f\n        "doc"\n'))
    add('A22.notype', 'patched-struct-field-without-type', R, _one('struct S\n    a Int32\n\npatch struct S\n    f\n'))
    add('A22.notype', 'inherited-struct-field-without-type', R, _one('struct B\n    a Int32\n\nstruct S extends B\n    f\n'))
    add('A22.notype', 'union-member-without-type', A, _one('union U\n    f\n'))
    add('A35', 'route-with-two-types', R, _one('route r(Void, Void)\n'))
    add('A35', 'route-with-two-user-types', R, _one('struct S\n    f Int32\n\nroute r:2(S, S)\n    "doc"\n'))
    add('A35', 'route-with-two-types-deprecated', R, _one('route r(Void, Void) deprecated\n'))
    add('A35', 'route-with-three-types', A, _one('route r(Void, Void, Void)\n'))

    # ---- route attributes
    for name, ty, bad, good in (('bytes', 'Bytes?', '5', '"x"'), ('bytes-bool', 'Bytes', 'true', '"x"'), ('timestamp', 'Timestamp("%Y")?', '"x"', '"2020"'),
                                ('timestamp-number', 'Timestamp("%Y")', '2020', '"2020"'), ('list', 'List(Int32)?', '1', 'null'),
                                ('map', 'Map(String, Int32)?', '"x"', 'null'), ('struct', 'ns.T?', '1', 'null'), ('union-literal', 'ns.U?', '1', 'a'),
                                ('union-string', 'ns.U', '"a"', 'a'), ('union-alias-literal', 'ns.UA?', 'true', 'a'), ('float', 'Float64', '"x"', '1.5'),
                                ('string', 'String?', '1', '"x"'), ('boolean', 'Boolean', '1', 'true'), ('int-bound', 'Int32(max_value=5)', '6', '5')):
        types = 'struct T\n    g Int32\n\nunion U\n    a\n    b Int32\n\nalias UA = U\n\n'
        add('B17', 'attribute-%s' % name, R, [_CFG('k ' + ty), ('ns.stone', _NS + types + _ROUTE('k = ' + bad))])
        add('B17', 'attribute-%s' % name, A, [_CFG('k ' + ty), ('ns.stone', _NS + types + _ROUTE('k = ' + good))])

    add('B16', 'stone_cfg-without-route-schema', A, [('cfg.stone', 'namespace stone_cfg\n'), ('ns.stone', _NS + 'route r(Void, Void, Void)\n')])
    add('B15', 'attribute-without-route-schema', R, [('cfg.stone', 'namespace stone_cfg\n'), ('ns.stone', _NS + _ROUTE('k = 1'))])

    # ---- annotations
    farc = ('far.stone', 'namespace far\n\nannotation_type FarT\n    p Int32\n\nannotation FarC = FarT(1)\n\nannotation FarD = Deprecated()\n')
    for hname, host in (('field', 'struct S\n    f String\n        @%s\n'), ('tag', 'union U\n    t String\n        @%s\n'), ('alias', 'alias X = String\n    @%s\n')):
        add('B23', 'imported-custom-annotation-on-' + hname, A, _one('import far\n\n' + host % 'far.FarC', farc))
        add('B23', 'custom-annotation-of-imported-type-on-' + hname, A, _one('import far\n\nannotation C = far.FarT(2)\n\n' + host % 'C', farc))
    add('B23', 'imported-custom-annotation-importer-handed-over-first', A,
        [('ns.stone', _NS + 'import far\n\nalias X = String\n    @far.FarC\n\nstruct S\n    f X\n    g String\n        @far.FarC\n'), farc])
    at2 = 'annotation_type T\n    p Int32\n    q String = "d"\n    r Boolean = false\n\n'
    use = 'struct S\n    f String\n        @An\n'
    for name, args, expect in (('two-positional', '1, "x"', A), ('three-positional', '1, "x", true', A), ('four-positional', '1, "x", true, 2', R),
                               ('keywords-in-other-order', 'r=true, p=1', A), ('required-missing', 'q="x"', R), ('second-of-wrong-kind', '1, 2', R)):
        add('B22', 'custom-annotation-arguments-' + name, expect, _one(at2 + 'annotation An = T(%s)\n\n' % args + use))
    add('B23', 'imported-builtin-annotation-on-field', A, _one('import far\n\nstruct S\n    f String\n        @far.FarD\n', farc))
    add('B20', 'parameter-without-type', R, _one('annotation_type T\n    "d"\n    p\n'))
    add('B20', 'second-parameter-without-type', R, _one('annotation_type T\n    a Int32\n    p\n'))
    add('B20', 'typed-parameter', A, _one('annotation_type T\n    "d"\n    p Int32\n'))
    add('B21', 'own-namespace-as-prefix', R, _one('annotation_type T\n    "d"\n\nannotation A = ns.T()\n'))
    add('B21', 'own-namespace-as-prefix-with-arguments', R, _one('annotation_type T\n    p Int32\n\nannotation A = ns.T(1)\n'))
    add('B21', 'imported-annotation-type', A, _one('import far\n\nannotation A = far.FarT()\n\nstruct S\n    f String\n        @A\n', _FAR))
    add('B21', 'no-prefix', A, _one('annotation_type T\n    "d"\n\nannotation A = T()\n\nstruct S\n    f String\n        @A\n'))
    hosts = (('field', 'struct S\n    f String\n        @%s\n'), ('tag', 'union U\n    t String\n        @%s\n'), ('void-tag', 'union U\n    t\n        @%s\n'),
             ('alias', 'alias X = String\n    @%s\n'), ('patched-field', 'struct S\n    a Int32\n\npatch struct S\n    f String?\n        @%s\n'),
             ('second-of-two', 'annotation Ok = Preview()\n\nstruct S\n    f String\n        @Ok\n        @%s\n'))
    decls = 'import far\n\nstruct T\n    g Int32\n\nunion V\n    v\n\nalias AL = String\n\nannotation_type AT\n    "d"\n\nannotation An = AT()\n\n'
    for hname, host in hosts:
        for name, ref in (('undefined', 'Nope'), ('namespace-not-imported', 'other.X'), ('undeclared-namespace', 'zz.X'), ('own-namespace', 'ns.An'),
                          ('struct-as-namespace', 'T.X'), ('alias-as-namespace', 'AL.X'), ('annotation-as-namespace', 'An.X'),
                          ('undefined-in-imported-namespace', 'far.Nope'), ('a-struct', 'T'), ('a-union', 'V'), ('an-alias', 'AL'),
                          ('an-annotation-type', 'AT'), ('an-imported-struct', 'far.FarS'), ('an-imported-annotation-type', 'far.FarT'),
                          ('a-namespace', 'far')):
            add('B23', '%s-on-%s' % (name, hname), R, _one(decls + host % ref, _FAR, _OTHER))
        add('B23', 'annotation-on-%s' % hname, A, _one(decls + host % 'An', _FAR, _OTHER))
    reds = 'annotation R1 = RedactedBlot()\n\nannotation R2 = RedactedHash("x")\n\n'
    for ty in ('String', 'Int64', 'List(String)', 'String?'):
        add('B24.alias', 'two-redactors-on-alias-of-' + ty, R, _one(reds + 'alias X = %s\n    @R1\n    @R2\n' % ty))
        add('B24.alias', 'same-redactor-twice-on-alias-of-' + ty, R, _one(reds + 'alias X = %s\n    @R2\n    @R2\n' % ty))
        add('B24.alias', 'one-redactor-on-alias-of-' + ty, A, _one(reds + 'alias X = %s\n    @R2\n' % ty))

    # ---- examples
    u = 'union U\n    a\n    b Int32\n    example default\n        %s\n'
    for v in ('1', '"x"', 'true', '0', '[1]', '1.5'):
        add('C4', 'void-member-given-' + v, R, _one(u % ('a = ' + v)))
    add('C4', 'void-member-given-null', A, _one(u % 'a = null'))
    add('C4', 'void-member-of-parent-given-1', R, _one('union P\n    a\n\nunion U extends P\n    b Int32\n    example default\n        a = 1\n'))
    inner = {'struct': 'struct I\n    x Int32\n    example default\n        x = 1\n\n', 'union': 'union I\n    x\n    example default\n        x = null\n\n'}
    for kind, decl in inner.items():
        for ty, wrap in (('I', '%s'), ('I?', '%s'), ('List(I)', '[%s]'), ('Map(String, I)', '{"k": %s}'), ('IA', '%s')):
            host = decl + 'alias IA = I\n\nstruct S\n    f %s\n    example default\n        f = %s\n'
            for v in ('1', '"default"', 'true'):
                add('C3', '%s-typed-%s-given-%s' % (kind, ty, v), R, _one(host % (ty, wrap % v)))
            add('C3', '%s-typed-%s-given-its-example' % (kind, ty), A, _one(host % (ty, wrap % 'default')))
            add('C7', '%s-typed-%s-refers-to-missing-example' % (kind, ty), R, _one(host % (ty, wrap % 'nope')))
        for ty in ('I', 'I?', 'IA'):
            host = decl + 'alias IA = I\n\nunion S\n    g\n    f %s\n    example default\n        f = %s\n'
            add('C7', 'union-member-%s-typed-%s-refers-to-missing-example' % (kind, ty), R, _one(host % (ty, 'nope')))
            add('C7', 'union-member-%s-typed-%s-given-its-example' % (kind, ty), A, _one(host % (ty, 'default')))
    add('C7', 'example-refers-to-itself', R, _one('struct S\n    n Int32\n    s S?\n    example default\n        n = 1\n        s = default\n'))
    add('C7', 'example-refers-to-itself-in-list', R, _one('struct S\n    n Int32\n    s List(S)\n    example default\n        n = 1\n        s = [default]\n'))
    add('C7', 'example-refers-to-another-of-its-type', A,
        _one('struct S\n    n Int32\n    s S?\n    example default\n        n = 1\n        s = leaf\n    example leaf\n        n = 2\n'))
    add('C7', 'two-examples-refer-to-each-other', R,
        _one('struct S\n    n Int32\n    s S?\n    example default\n        n = 1\n        s = second\n    example second\n        n = 2\n        s = default\n'))
    add('C7', 'examples-of-two-types-refer-to-each-other', R,
        _one('struct A\n    b B\n    example default\n        b = default\n\nstruct B\n    a A?\n    example default\n        a = default\n'))
    add('C7', 'union-example-refers-to-itself', R, _one('union U\n    a\n    u U\n    example default\n        u = default\n'))
    add('C7', 'union-example-refers-to-another', A, _one('union U\n    a\n    u U\n    example default\n        u = leaf\n    example leaf\n        a = null\n'))
    tree = ('struct R\n    union\n        a A\n        b B\n    r Int32\n    example default\n        %s\n\nstruct A extends R\n    x Int32\n    example default\n'
            '        r = 1\n        x = 2\n\nstruct B extends R\n    y Int32\n    example other\n        r = 1\n        y = 2\n')
    add('C6', 'subtype-example-missing', R, _one(tree % 'a = nope'))
    add('C6', 'subtype-example-of-the-other-subtype', R, _one(tree % 'a = other'))
    add('C6', 'subtype-without-that-example', R, _one(tree % 'b = default'))
    add('C6', 'subtype-example', A, _one(tree % 'a = default'))
    add('C6', 'second-subtype-example', A, _one(tree % 'b = other'))
    return c


REPORT_CAP = 3


def suite_sites(ck, report='C01'):
    """`fe.sites`: the fixed catalogue -- every entry marked refused must end in InvalidSpec, every legal neighbour must compile"""
    cat = sites_catalogue()
    verdicts = compile_all([sp for _r, _n, _e, sp in cat], chunk=40)
    fresh = {}                      # at most REPORT_CAP new violations per rule and direction (listed findings do not count)
    for (rule, name, expect, sp), v in zip(cat, verdicts):
        ck.case(('fe.sites', rule, name, expect), nontrivial=True)
        ck.hist('fe.sites.rule', rule)
        ck.hist('fe.sites.outcome', '%s/%s' % (expect, v['k'] if v['k'] != 'crash' else 'crash:' + v['exc']))
        case = {'specs': [list(f) for f in sp], 'origin': 'fe.sites', 'verdict': v, 'suite': 'fe.sites', 'rule': rule, 'name': name}
        if v['k'] == 'crash':
            if report == 'C03':
                ck.failing_input('C03: %s escapes the frontend (%s): %s' % (v['exc'], v['where'], name),
                                 {'kind': 'escape', 'exc': v['exc'], 'where': v['where']}, case)
            else:
                ck.stat('fe.sites.escapes_left_to_C03')
        elif report == 'C01':
            if v['k'] == 'ok' and expect == 'refused' and fresh.get((rule, expect), 0) < REPORT_CAP:
                how = ck.failing_input('C01: a spec that violates rule %s is accepted (%s)' % (rule, name),
                                       {'kind': 'accepted', 'rule': rule, 'shape': name}, dict(case, expect='refused'))
                fresh[(rule, expect)] = fresh.get((rule, expect), 0) + (how == 'new')
            elif v['k'] == 'spec' and expect == 'accepted' and fresh.get((rule, expect), 0) < REPORT_CAP:
                msg = spec_message(sp)
                how = ck.failing_input('C01: a legal spec is refused (%s, legal neighbour of rule %s): %s' % (name, rule, msg),
                                       {'kind': 'refused', 'rule': rule, 'shape': name, 'message': _msg_shape(msg)},
                                       dict(case, expect='accepted', message=msg))
                fresh[(rule, expect)] = fresh.get((rule, expect), 0) + (how == 'new')
    ck.sample({'suite': 'fe.sites', 'rule': cat[0][0], 'name': cat[0][1], 'spec': cat[0][3][0][1]})


# ================================================================================================ fe.docrefs
#
# "Well-formed doc references" (lang_ref "References"): a grid of reference text x docstring that carries it.  The
# verdict of `DOCREFS` is written from the reference section, not from the code: True legal, False illegal, None not
# judged.  A bare `:field:` name is looked up in the type the docstring belongs to, so its verdict depends on the host.

_DR_FAR = ('far.stone', 'namespace far\n\nstruct FarS\n    ff Int32\n\nunion FarU\n    fu\n\nalias FarA = Int32\n\nalias FarSA = FarS\n\n'
                        'annotation FarAn = Deprecated()\n\nroute far_r(Void, Void, Void)\n\nroute far_r:2(Void, Void, Void)\n')
_DR_OTHER = ('other.stone', 'namespace other\n\nstruct OtherS\n    of Int32\n\nroute other_r(Void, Void, Void)\n')
_DR_DECLS = ('struct T\n    g Int32\n\nstruct C extends T\n    h Int32\n\nunion U\n    a\n    b Int32\n\nalias AP = String\n\nalias AS = T\n\n'
             'annotation An = Deprecated()\n\nannotation_type AT\n    "d"\n\nroute r(Void, Void, Void)\n\nroute r:2(Void, Void, Void)\n\n')

# host -> (text with %s for the docstring, members visible to a bare :field:, or None when the doc belongs to no type; judged?)
#   judged 'yes': docs the reference section names (routes, structs, struct fields, unions, union options);
#   'elsewhere': docstrings the grammar allows beside them (alias, namespace) -- the same rules are expected to hold;
#   'no': places where a string is not documentation of an API element (annotation types and their parameters, example texts)
DOCREF_HOSTS = {
    'struct': ('struct H\n    "%s"\n    hf Int32\n', ('hf',), 'yes'),
    'field': ('struct H\n    hf Int32\n        "%s"\n    hg Int32\n', ('hf', 'hg'), 'yes'),
    'child-field': ('struct H extends T\n    hf Int32\n        "%s"\n', ('hf', 'g'), 'yes'),
    'union': ('union H\n    "%s"\n    hf\n    hg Int32\n', ('hf', 'hg'), 'yes'),
    'void-tag': ('union H\n    hf\n        "%s"\n    hg Int32\n', ('hf', 'hg'), 'yes'),
    'typed-tag': ('union_closed H\n    hf\n    hg Int32\n        "%s"\n', ('hf', 'hg'), 'yes'),
    'route': ('route h(Void, Void, Void)\n    "%s"\n', None, 'yes'),
    'patched-field': ('struct H\n    hf Int32\n\npatch struct H\n    hg Int32?\n        "%s"\n', ('hf', 'hg'), 'yes'),
    'tree-root': ('struct H\n    "%s"\n    union\n        hs HS\n    hf Int32\n\nstruct HS extends H\n    hg Int32\n', ('hf',), 'yes'),
    'tree-leaf-field': ('struct HR\n    union\n        hs H\n    g Int32\n\nstruct H extends HR\n    hf Int32\n        "%s"\n', ('hf', 'g'), 'yes'),
    'alias': ('alias H = String\n    "%s"\n', None, 'elsewhere'),
    'namespace': (None, None, 'elsewhere'),
    'annotation-type': ('annotation_type H\n    "%s"\n    hp Int32\n', None, 'no'),
    'parameter': ('annotation_type H\n    hp Int32\n        "%s"\n', None, 'no'),
    'example-text': ('struct H\n    hf Int32\n    example default\n        "%s"\n        hf = 1\n', None, 'no'),
}

# (rule, reference text, verdict); verdict 'own' / 'inherited': a bare field name -- legal where the host has that member
DOCREFS = [
    ('C12', ':type:`T`', True), ('C12', ':type:`U`', True), ('C12', ':type:`C`', True), ('C12', ':type:`far.FarS`', True),
    ('C12', ':type:`far.FarU`', True), ('C12', ':type:`AP`', False), ('C12', ':type:`AS`', None), ('C12', ':type:`far.FarA`', False),
    ('C12', ':type:`far.FarSA`', None), ('C12', ':type:`r`', False), ('C12', ':type:`An`', False), ('C12', ':type:`AT`', False),
    ('C12', ':type:`far`', False), ('C12', ':type:`String`', False), ('C12', ':type:`Nope`', False), ('C12', ':type:`far.Nope`', False),
    ('C12', ':type:`other.OtherS`', False), ('C12', ':type:`zz.T`', False), ('C12', ':type:`T.g`', False), ('C12', ':type:``', False),
    ('C12', ':type:`t`', False), ('C12', ':type:`far.far_r`', False),
    ('C9', ':field:`T.g`', True), ('C9', ':field:`C.g`', True), ('C9', ':field:`C.h`', True), ('C9', ':field:`U.a`', True),
    ('C9', ':field:`U.b`', True), ('C9', ':field:`far.FarS.ff`', True), ('C9', ':field:`far.FarU.fu`', True),
    ('C9', ':field:`hf`', 'own'), ('C9', ':field:`g`', 'inherited'), ('C9', ':field:`T.nope`', False), ('C9', ':field:`T.h`', False),
    ('C9', ':field:`U.nope`', False), ('C9', ':field:`far.FarS.nope`', False), ('C9', ':field:`Nope.x`', False), ('C9', ':field:`far.Nope.x`', False),
    ('C9', ':field:`far.FarS`', False), ('C9', ':field:`AP.x`', False), ('C9', ':field:`AS.g`', None), ('C9', ':field:`far.FarA.x`', False),
    ('C9', ':field:`r.x`', False), ('C9', ':field:`An.x`', False), ('C9', ':field:`AT.x`', False), ('C9', ':field:`String.x`', False),
    ('C9', ':field:`other.OtherS.of`', False), ('C9', ':field:`zz.T.g`', False), ('C9', ':field:`T.g.x`', False), ('C9', ':field:`nope`', False),
    ('C9', ':field:``', False), ('C9', ':field:`T.G`', False), ('C9', ':field:`far.ff`', False),
    ('C11', ':route:`r`', True), ('C11', ':route:`r:1`', True), ('C11', ':route:`r:2`', True), ('C11', ':route:`far.far_r`', True),
    ('C11', ':route:`far.far_r:2`', True), ('C11', ':route:`r:3`', False), ('C11', ':route:`r:0`', False), ('C11', ':route:`r:x`', False),
    ('C11', ':route:`r:`', False), ('C11', ':route:`far.far_r:3`', False), ('C11', ':route:`far.nope`', False), ('C11', ':route:`nope`', False),
    ('C11', ':route:`T`', False), ('C11', ':route:`AP`', False), ('C11', ':route:`An`', False), ('C11', ':route:`far.FarS`', False),
    ('C11', ':route:`other.other_r`', False), ('C11', ':route:`zz.r`', False), ('C11', ':route:`T.r`', False), ('C11', ':route:``', False),
    ('C11', ':route:`far`', False), ('C11', ':route:`R`', False),
    ('C10', ':link:`Stone Repo https://github.com/dropbox/stone`', True), ('C10', ':link:`docs http://x.y/z`', True),
    ('C10', ':link:`X https://x.y`', True), ('C10', ':link:`onlyoneword`', False), ('C10', ':link:``', False), ('C10', ':link:`title `', False),
    ('C10', ':link:` uri`', False), ('C10', ':link:`a  b`', None),
    ('C13', ':val:`null`', True), ('C13', ':val:`true`', True), ('C13', ':val:`false`', True), ('C13', ':val:`0`', True), ('C13', ':val:`-12`', True),
    ('C13', ':val:`3.5`', True), ('C13', ':val:`1e5`', True), ('C13', ':val:`"str"`', True), ('C13', ':val:`""`', True), ('C13', ':val:`"a b"`', True),
    ('C13', ':val:`word`', False), ('C13', ':val:`"unterminated`', False), ('C13', ':val:`1.2.3`', False), ('C13', ':val:``', False),
    ('C13', ':val:`-`', False), ('C13', ':val:`1 2`', False), ('C13', ':val:`True`', None), ('C13', ':val:`.5`', None), ('C13', ':val:`2.`', None),
    ('C8', ':zqtag:`x`', False), ('C8', ':types:`T`', False), ('C8', ':values:`1`', False), ('C8', ':Type:`T`', None),
    # not references at all (the format is :tag:`value`): plain text
    ('C8', ':type: `Nope`', True), ('C8', 'type:`Nope`', True), ('C8', ':type:Nope', True), ('C8', '`Nope`', True), ('C8', ':nope:', True),
]


_DR_ALONE = (':link:`X https://x.y`',)       # legal references kept out of the all-in-one docstring (refused today: reported once)


def docref_verdict(v, members):
    if v == 'own':
        return members is not None and 'hf' in members
    if v == 'inherited':
        return members is not None and 'g' in members
    return v


def docref_spec(host, doc):
    esc = doc.replace('\\', '\\\\').replace('"', '\\"')
    if host == 'namespace':
        text = 'namespace ns\n    "%s"\n\nimport far\n\n%s' % (esc, _DR_DECLS)
    else:
        text = 'namespace ns\n\nimport far\n\n' + _DR_DECLS + DOCREF_HOSTS[host][0] % esc
    return [_DR_FAR, _DR_OTHER, ('ns.stone', text)]


def docrefs_grid(rng, full):
    """[(host, rule or None, reference texts, verdict)]: per host ONE spec with every legal reference; every illegal (and
    every not judged) reference alone in the two first hosts and in one other host (`full`: in every host)"""
    out = []
    hosts = list(DOCREF_HOSTS)
    others = hosts[2:]
    for i, (rule, ref, v) in enumerate(DOCREFS):
        if v is True:
            continue
        for h in (hosts if full else hosts[:2] + [others[i % len(others)], others[(i * 7 + 3) % len(others)]]):
            members = DOCREF_HOSTS[h][1]
            out.append((h, rule, [ref], docref_verdict(v, members)))
    for h in hosts:
        legal = [ref for _r, ref, v in DOCREFS if v is True and ref not in _DR_ALONE]
        out.append((h, None, legal, True))
        if full or h in ('struct', 'route', 'void-tag'):
            out += [(h, None, [ref], True) for ref in _DR_ALONE]
    seen, res = set(), []
    for c in out:
        key = (c[0], tuple(c[2]))
        if key not in seen:
            seen.add(key)
            res.append(c)
    return res


def suite_docrefs(ck, report='C01'):
    """`fe.docrefs`: doc references x the docstrings that can carry them, against an independent statement of the
    reference rules.  An illegal reference must be refused wherever the docstring stands (docs of aliases and of the
    namespace included: the compiler parses them again later); legal ones must compile."""
    grid = docrefs_grid(ck.rng, ck.scale(False, True))
    specs = [docref_spec(h, 'See %s for more.' % ' and '.join(refs)) for h, _r, refs, _v in grid]
    verdicts = compile_all(specs, chunk=40)
    reported = set()
    fresh = {}
    for (host, rule, refs, verdict), sp, rv in zip(grid, specs, verdicts):
        judged = DOCREF_HOSTS[host][2]
        ck.case(('fe.docrefs', host, tuple(refs)), nontrivial=True)
        out = rv['k'] if rv['k'] != 'crash' else 'crash:' + rv['exc']
        ck.hist('fe.docrefs.host', host)
        ck.hist('fe.docrefs.legal', '%s/%s/%s' % ({'yes': 'doc', 'elsewhere': 'other-doc', 'no': 'no-doc'}[judged],
                                                  {True: 'legal', False: 'illegal', None: 'not-judged'}[verdict], out))
        case = {'specs': [list(f) for f in sp], 'origin': 'fe.docrefs', 'verdict': rv, 'host': host, 'refs': refs, 'suite': 'fe.docrefs'}
        if rv['k'] == 'crash':
            if report == 'C03':
                if (rv['exc'], rv['where']) not in reported:
                    reported.add((rv['exc'], rv['where']))
                    ck.failing_input('C03: %s escapes the frontend (%s): doc reference %s in the doc of a %s' % (rv['exc'], rv['where'], refs[0], host),
                                     {'kind': 'escape', 'exc': rv['exc'], 'where': rv['where']}, case)
            else:
                ck.stat('fe.docrefs.escapes_left_to_C03')
            continue
        if report != 'C01' or judged == 'no' or verdict is None:
            continue
        if rv['k'] == 'ok' and verdict is False:
            if judged == 'elsewhere':
                # one finding per kind of docstring: none of its references is looked at
                if ('unchecked', host) not in reported:
                    reported.add(('unchecked', host))
                    ck.failing_input('C01: an illegal doc reference (%s) in the doc of the %s is accepted' % (refs[0], host),
                                     {'kind': 'accepted', 'rule': 'C8-C13', 'host': host + '-doc'}, dict(case, expect='refused', rule=rule))
            elif fresh.get(rule, 0) < REPORT_CAP:
                how = ck.failing_input('C01: an illegal doc reference (%s) in the doc of a %s is accepted' % (refs[0], host),
                                       {'kind': 'accepted', 'rule': rule, 'ref': refs[0], 'host': host},
                                       dict(case, expect='refused', rule=rule))
                fresh[rule] = fresh.get(rule, 0) + (how == 'new')
        elif rv['k'] == 'spec' and verdict is True:
            # which of the legal references is refused: each one alone
            culprits = [r for r in refs if compile_one(docref_spec(host, 'See %s.' % r))['k'] == 'spec'] or refs
            for r in culprits:
                sp1 = docref_spec(host, 'See %s.' % r)
                msg = spec_message(sp1)
                shape = 'one-letter-title' if r.startswith(':link:`X ') else r.split('`')[0]
                if (shape, _msg_shape(msg)) in reported:
                    continue
                reported.add((shape, _msg_shape(msg)))
                ck.failing_input('C01: a legal doc reference (%s) in the doc of a %s is refused: %s' % (r, host, msg),
                                 {'kind': 'refused', 'rule': [x for x, y, _v in DOCREFS if y == r][0], 'shape': shape},
                                 {'specs': [list(f) for f in sp1], 'origin': 'fe.docrefs', 'host': host, 'refs': [r], 'suite': 'fe.docrefs',
                                  'expect': 'accepted', 'message': msg})
    ck.sample({'suite': 'fe.docrefs', 'host': grid[0][0], 'refs': grid[0][2]})


# ================================================================================================ by-construction oracle

PRESETS =['small', 'default', 'fe', 'routes', 'rt', 'py_safe']
_MSG_RULE = [
    (r'already defined', 'A8/A9'), (r'conflicts with name', 'A10'), (r'is undefined|Undefined type', 'A11'),
    (r'not imported', 'A6'), (r'not a namespace', 'A7'), (r'Circular import', 'A5'), (r'Cannot import current', 'A3'),
    (r'not defined in any spec', 'A4'), (r'cannot be marked nullable|Cannot mark reference', 'A12/A15'),
    (r'route cannot be referenced', 'A13'), (r'Attributes cannot be specified', 'A14'),
    (r'positional argument|keyword argument|Unknown argument|Bad argument', 'A16-A20'),
    (r'cannot extend|can only extend', 'A21/A28'), (r'Void type', 'A22/A29'), (r'nullable type and have a default', 'A23'),
    (r'already defined in|already defined on', 'A24/A25'), (r'circular reference|part of a cycle', 'A26/A32'),
    (r'invalid default', 'A27'), (r"'other'", 'A30'), (r'cannot be closed', 'A31'), (r'Undefined route|must be a route', 'A33/A34'),
    (r'[Ss]ubtype|enumerat', 'B1-B8'), (r'[Pp]atch', 'B9-B12'), (r'stone_cfg|attr', 'B13-B17'),
    (r'[Aa]nnotation|[Rr]edact|Omitted|Deprecated|Preview', 'B18-B26'), (r'[Ee]xample', 'C1-C7'),
    (r'Bad doc reference|doc ref|Unknown doc', 'C8-C13'), (r'Indent|Unexpected|Illegal character|Unmatched|continuation', 'S'),
    (r'First declaration|Only one namespace', 'A1/A2'),
]


def rule_of_message(msg):
    for rex, rid in _MSG_RULE:
        if re.search(rex, msg or ''):
            return rid
    return 'other'


def _msg_shape(msg):
    return re.sub(r"'[^']*'|\"[^\"]*\"|\d+", '#', msg or '')[:80]


def _gen_models(rng, n, presets=PRESETS):
    from harness import specgen
    return [specgen.gen_model(rng, presets[i % len(presets)]) for i in range(n)]


def _remove_def(model, ni, di):
    ns = model.namespaces[ni]
    del ns.defs[di]
    ns.files = [[j - (1 if j > di else 0) for j in f if j != di] for f in (ns.files or [])]
    if ns.files and not any(ns.files):
        ns.files = [[]]
    if ns.doc_file >= len(ns.files or [0]):
        ns.doc_file = 0


def shrink_model(model, replacements, keep, same, budget=70):
    """delete definitions (never those in `keep`: {(ns, name)}) while `same(verdict, message)` stays true"""
    from harness import specgen, inject
    cur = model
    tries = 0
    for ni in range(len(cur.namespaces) - 1, -1, -1):
        di = len(cur.namespaces[ni].defs) - 1
        while di >= 0 and tries < budget:
            d = cur.namespaces[ni].defs[di]
            if (cur.namespaces[ni].name, d.name) not in keep:
                cand = specgen.clone(cur)
                _remove_def(cand, ni, di)
                try:
                    files = inject.render_with(cand, None, replacements)
                except Exception:  # noqa: BLE001  (an emptied body cannot be rendered)
                    files = None
                if files is not None:
                    tries += 1
                    if same(compile_one(files)):
                        cur = cand
            di -= 1
    return cur


def _keep_set(before, after):
    """definitions touched by the injection, everything they mention (transitively) and their canonical namesakes"""
    from harness import specgen
    old = {(ns.name, i): repr(d) for ns in before.namespaces for i, d in enumerate(ns.defs)}
    names = {}
    for ns in after.namespaces:
        for d in ns.defs:
            names.setdefault(d.name, []).append((ns.name, d))
    todo = [(ns.name, d) for ns in after.namespaces for i, d in enumerate(ns.defs) if old.get((ns.name, i)) != repr(d)]
    keep = set()
    while todo:
        nsn, d = todo.pop()
        if (nsn, d.name, id(d)) in keep:
            continue
        keep.add((nsn, d.name, id(d)))
        try:
            text = specgen.render_def(d)
        except Exception:  # noqa: BLE001
            text = repr(d)
        for w in set(re.findall(r'[A-Za-z_][A-Za-z0-9_]*', text)):
            for item in names.get(w, []):
                todo.append(item)
        for ns in after.namespaces:
            for e in ns.defs:
                if e is not d and specgen.canonical(e.name, '') == specgen.canonical(d.name, ''):
                    todo.append((ns.name, e))
    return {(a, b) for a, b, _c in keep}


def shrink_text_blocks(files, essential, same, budget=70):
    """delete top-level blocks that contain none of the `essential` (file, line text) while the verdict persists"""
    cur = [list(f) for f in files]
    tries = 0
    for fi in range(len(cur)):
        lines = cur[fi][1].split('\n')
        starts = [i for i, l in enumerate(lines) if l and not l.startswith(' ') and not l.startswith('#')]
        blocks = [(a, b) for a, b in zip(starts, starts[1:] + [len(lines)])]
        for a, b in reversed(blocks):
            if tries >= budget:
                break
            if lines[a].startswith('namespace') or any((fi, l) in essential for l in lines[a:b]):
                continue
            cand_lines = lines[:a] + lines[b:]
            cand = [list(f) for f in cur]
            cand[fi][1] = '\n'.join(cand_lines)
            tries += 1
            if same(compile_one(cand)):
                lines = cand_lines
                cur = cand
    return cur


def suite_valid(ck, n_models=None):
    """every generated model under two layouts must compile"""
    from harness import specgen
    rng = ck.rng
    n = n_models or ck.scale(100, 3000)
    models = _gen_models(rng, n)
    cases, meta = [], []
    for mi, m in enumerate(models):
        for li in range(2):
            lay = None if li == 0 else specgen.gen_layout(rng, m)
            files = specgen.render(m, lay)
            cases.append([tuple(f) for f in files])
            meta.append((mi, li, lay))
    verdicts = compile_all(cases)
    seen = set()
    for files, (mi, li, lay), v in zip(cases, meta, verdicts):
        m = models[mi]
        ck.case(('valid', mi, li, tuple(t for _p, t in files)), nontrivial=True)
        ck.hist('fe.valid.preset', m.profile)
        ck.hist('fe.valid.outcome', v['k'])
        if v['k'] == 'ok':
            continue
        if v['k'] == 'crash':
            ck.stat('fe.valid.escapes_left_to_C03')
            continue
        msg = spec_message(files)
        shape = _msg_shape(msg)
        small = files
        if shape not in seen:
            seen.add(shape)
            if li == 0:
                sm = shrink_model(m, None, set(), lambda w: w['k'] == 'spec' and _msg_shape(spec_message_of(w)) == shape)
                small = specgen.render(sm, None)
        ck.failing_input('C01: a legal spec is refused: %s' % msg,
                         {'kind': 'refused', 'rule': rule_of_message(msg), 'message': shape},
                         {'specs': [list(f) for f in small], 'expect': 'accepted', 'message': msg, 'preset': m.profile,
                          'layout': 'reference' if li == 0 else 'random', 'suite': 'valid'})
    ck.sample({'suite': 'valid', 'preset': models[0].profile, 'files': [p for p, _t in cases[0]]})


def spec_message_of(verdict):
    return verdict.get('msg', '')


def _inject_case(m, r, site, shuffle, base, seed):
    """the files of one injection, reproducible from (model, rule, site, shuffle, base, seed) -- so that the suite
    need not keep the mutated clone of every case: -> (files, mutated model or None, replacements or None)"""
    import random
    from harness import specgen, inject
    crng = random.Random(seed)
    if r.level == 'text':
        return inject.inject_text(base, r, site, crng), None, None
    m2 = specgen.clone(m)
    rep = r.apply(m2, site, crng)
    return inject.render_with(m2, inject.plain_layout(crng, m2) if shuffle else None, rep), m2, rep


VIOLATIONS_BATCH = 6000      # cases compiled and judged at a time (the thorough tier has some 300,000: texts and clones
#                              of all of them at once are > 10 GB, copied again by every forked pool worker)


def suite_violations(ck, n_models=None, per_rule=None, report='C01'):
    """rule x site x model: one injected violation must be refused with InvalidSpec"""
    from harness import specgen, inject
    rng = ck.rng
    n = n_models or ck.scale(16, 300)
    k = per_rule or ck.scale(2, 10)
    models = _gen_models(rng, n)
    base_ok = compile_all([[tuple(f) for f in specgen.render(m, None)] for m in models])
    cases, meta = [], []
    seen = set()
    first_rule = []

    def flush():
        verdicts = compile_all(cases)
        for files, (mi, r, site, shuffle, base, seed), v in zip(cases, meta, verdicts):
            _judge_violation(ck, models[mi], r, site, shuffle, base, seed, files, v, seen, report)
        del cases[:], meta[:]

    for mi, m in enumerate(models):
        if base_ok[mi]['k'] != 'ok':
            ck.stat('fe.violations.base_model_not_accepted')
            continue
        for r in inject.RULES:
            shuffle = rng.random() < 0.5
            if r.level == 'text':
                base = inject.base_files(m, rng, shuffle)
                sites = r.sites(base)
            else:
                base = None
                sites = r.sites(m)
            if not sites:
                ck.hist('fe.violations.no_site', r.id)
                continue
            for site in inject.sample_sites(m, r, sites, k, rng):
                seed = rng.getrandbits(64)
                try:
                    files, _m2, _rep = _inject_case(m, r, site, shuffle, base, seed)
                except Exception as e:  # noqa: BLE001
                    ck.stat('fe.violations.injector_error')
                    ck.note('injector %s failed on a model: %s: %s' % (r.id, type(e).__name__, e))
                    continue
                cases.append([tuple(f) for f in files])
                meta.append((mi, r, site, shuffle, base, seed))
                if not first_rule:
                    first_rule.append(r.id)
        if len(cases) >= VIOLATIONS_BATCH:
            flush()
    flush()
    ck.stats['fe.violations.rules_built'] = len(inject.RULES)
    ck.stats['fe.violations.rules_unbuilt'] = sorted(inject.UNBUILT)
    ck.sample({'suite': 'violations', 'rule': first_rule[0] if first_rule else None})


def _judge_violation(ck, m, r, site, shuffle, base, seed, files, v, seen, report):
    from harness import inject
    ck.case(('violation', r.id, tuple(t for _p, t in files)), nontrivial=True)
    ck.hist('fe.violations.rule', r.id)
    ck.hist('fe.violations.outcome', v['k'] if v['k'] != 'crash' else 'crash:' + v['exc'])
    for c in inject.site_ctx(m, r, site) + (['shuffled'] if shuffle else []) + \
            (['multi_ns'] if len(m.namespaces) > 1 else []):
        ck.hist('fe.violations.context', c)
    if v['k'] == 'spec':
        return
    if v['k'] == 'crash':
        if report == 'C03':
            if (v['exc'], v['where']) not in seen:
                seen.add((v['exc'], v['where']))
                report_escape(ck, v, files, 'violation:' + r.id)
        else:
            ck.stat('fe.violations.escapes_left_to_C03')
            ck.hist('fe.violations.escape_by_rule', '%s:%s@%s' % (r.id, v['exc'], v['where']))
        return
    ck.hist('fe.violations.accepted_by_rule', r.id)
    if report != 'C01':
        return
    small = [list(f) for f in files]
    if r.id not in seen:
        seen.add(r.id)
        ok = lambda w: w['k'] == 'ok'   # noqa: E731
        if r.level != 'text':
            _files, m2, rep = _inject_case(m, r, site, shuffle, base, seed)     # the same injection again
            keep = _keep_set(m, m2)
            sm = shrink_model(m2, rep, keep, ok)
            cand = inject.render_with(sm, None, rep)
            if compile_one(cand)['k'] == 'ok':
                small = [list(f) for f in cand]
        else:
            base_lines = {(fi, l) for fi, (_p, t) in enumerate(base) for l in t.split('\n')}
            essential = {(fi, l) for fi, (_p, t) in enumerate(files) for l in t.split('\n')} - base_lines
            small = shrink_text_blocks(files, essential, ok)
    ck.failing_input('C01: a spec that violates rule %s is accepted (%s)' % (r.id, r.doc),
                     {'kind': 'accepted', 'rule': r.id},
                     {'specs': small, 'expect': 'refused', 'rule': r.id, 'rule_doc': r.doc, 'site': repr(site),
                      'preset': m.profile, 'suite': 'violations'})


RULE = ('C01: compile succeeds iff the spec obeys the language rules. Direct oracle (testing): legal generated models must '
        'compile; one injected rule violation must be refused with InvalidSpec. Component models (proved + tied): type '
        'argument legality (fe.params), name registration (fe.names).')


def replay(ck, path):
    import json
    rec = json.load(open(path))
    case = rec.get('case', rec)
    specs = [tuple(s) for s in case['specs']]
    v = compile_one(specs)
    expect = case.get('expect')
    print('replay: expect %s, compiler says %s %s' % (expect, v, spec_message(specs) or ''))
    if v['k'] == 'crash':
        ck.failing_input('C03: %s escapes the frontend (%s)' % (v['exc'], v['where']),
                         {'kind': 'escape', 'exc': v['exc'], 'where': v['where']}, case)
    elif expect == 'refused' and v['k'] == 'ok':
        ck.failing_input(rec.get('what', 'accepted'), rec.get('signature', {'kind': 'accepted'}), case)
    elif expect == 'accepted' and v['k'] == 'spec':
        ck.failing_input(rec.get('what', 'refused'), rec.get('signature', {'kind': 'refused'}), case)
    return ck.finish(rule=RULE)
