"""graph.* correspondence suites and direct oracles (C20; the ordering part of C02).

Three layers, kept apart on purpose:

* the REAL code: `stone.frontend.frontend.specs_to_ir(specs, route_whitelist_filter=wl)` (the same call
  `stone.cli` makes for `--route-whitelist-filter`), `ApiNamespace.linearize_data_types / linearize_aliases /
  normalize`, `Struct.all_fields / all_required_fields / all_optional_fields`, `Union.all_fields`, the
  `python_types` backend and a fresh interpreter that imports what it wrote;
* the MODEL: the compiled Lean definitions of Model/Graph.lean behind the `graph.*` driver ops, fed with a dump
  of the UNFILTERED Api (`dump_graph`); correspondence = real retained sets / orders == model;
* the REFERENCE: `Reference` below, written from the text of the property on the objects of the unfiltered Api,
  sharing nothing with `dump_graph` or the model (own doc-reference reader, own closure). Only a disagreement
  between the real code and the reference (or a dangling reference / an import failure of the filtered
  package while the full one loads) is a failing input.

Never judged: what happens for a whitelist that names an unknown namespace / route / type (both sides must
refuse; the exception class is compared with the model only); the order of anything inside the filter (sets).
"""
import glob
import itertools
import json
import os
import re
import subprocess
import sys
import traceback

RULE = ('graph.filter: every hand-written spec under harness/specs/graph_* and generated multi-namespace specs '
        '(specgen profile "routes" and a doc/alias-heavy variant) x whitelists: empty, "*" for one / every namespace, '
        'every single route (all version spellings: name, name:1, name:N), every single data type (capped), random '
        'subsets of routes and of data types over random subsets of namespaces, a few ill-formed ones. For each: real '
        'filtered Api vs model (types, routes, aliases), vs the reference closure computed on the unfiltered Api '
        '(whitelisted kept, closed, nothing outside), dangling-reference scan of the filtered Api, python_types of the '
        'filtered Api imported in a fresh interpreter (judged when the full Api imports). A case is non-trivial when '
        'the filter removes at least one data type or route and keeps at least one. Edge grid (suite_edge_grid): generated '
        'two-namespace specs in which one root route per case is connected to its target types by exactly one edge - a field '
        'type in 20 written shapes (bare, nullable, List / Map nestings, aliases of and around them, aliases declared in the '
        'other namespace) x struct / union holder x same / other namespace; the three positions of a route signature x the same '
        'shapes; two versions of a route; parents, grandparents, union parents, tag defaults (also through an alias), roots / '
        'leaves of subtype trees (open and closed); doc references :type: / :field: / :route: / :route: with a version written in '
        'the doc of a struct, union, field, void tag, union member, alias, route, inherited field, subtype field, parent, a '
        'struct reached through Map(List(..?)), a result type, of the namespace - each root route whitelisted alone, "*", a few '
        'data types alone; real IRGenerator on the once-parsed files (a sample and every failure again through specs_to_ir). '
        'graph.linearize / graph.allfields: the hand-written and generated specs, namespace lists in sorted and in shuffled order.')

_counter = itertools.count()

# the pattern text of ir_generator.doc_ref_re, compiled here (the regex engine is an external component)
DOC_REF = re.compile(r':(?P<tag>[A-z]+):`(?P<val>.*?)`')


def _ir():
    from stone.ir import Alias, List, Map, Nullable, Struct, Union
    return Alias, List, Map, Nullable, Struct, Union


# ----------------------------------------------------------------------------------------------
# ids
# ----------------------------------------------------------------------------------------------

def tid(dt):
    return '%s.%s' % (dt.namespace.name, dt.name)


def rid(ns_name, r):
    return '%s.%s:%d' % (ns_name, r.name, r.version)


# ----------------------------------------------------------------------------------------------
# dump of the unfiltered Api for the model
# ----------------------------------------------------------------------------------------------

def ty_json(t):
    Alias, List, Map, Nullable, Struct, Union = _ir()
    if isinstance(t, Nullable):
        return ['n', ty_json(t.data_type)]
    if isinstance(t, List):
        return ['l', ty_json(t.data_type)]
    if isinstance(t, Map):
        return ['m', ty_json(t.key_data_type), ty_json(t.value_data_type)]
    if isinstance(t, (Struct, Union, Alias)):
        return ['r', tid(t)]
    return 'p'


def doc_refs(doc):
    if not doc:
        return []
    return [[m.group('tag'), m.group('val')] for m in DOC_REF.finditer(doc)]


def _unwrap_to_user(t):
    Alias, List, Map, Nullable, Struct, Union = _ir()
    n = 0
    while isinstance(t, (Alias, Nullable)) and n < 1000:
        t = t.data_type
        n += 1
    return t


def dump_graph(api):
    from stone.ir.data_types import TagRef
    Alias, List, Map, Nullable, Struct, Union = _ir()
    nodes = []
    nss = []
    for ns in api.namespaces.values():
        nss.append({'name': ns.name, 'docs': doc_refs(ns.doc),
                    'routes': [rid(ns.name, r) for r in ns.routes],
                    'types': [tid(d) for d in ns.data_types],
                    'aliases': [tid(a) for a in ns.aliases],
                    'annotations': [a.name for a in ns.annotations],
                    'annotation_types': [a.name for a in ns.annotation_types]})
        for dt in ns.data_types:
            fields = []
            for f in dt.fields:
                fj = {'name': f.name, 'ty': ty_json(f.data_type), 'docs': doc_refs(f.doc)}
                if getattr(f, 'has_default', False):
                    fj['dflt'] = True
                    if isinstance(f.default, TagRef):
                        u = _unwrap_to_user(f.default.union_data_type)
                        fj['tagdef'] = tid(u)
                fields.append(fj)
            node = {'id': tid(dt), 'kind': 'struct' if isinstance(dt, Struct) else 'union', 'ns': ns.name,
                    'name': dt.name, 'parent': tid(dt.parent_type) if dt.parent_type else None,
                    'fields': fields, 'docs': doc_refs(dt.doc)}
            if isinstance(dt, Struct) and dt.has_enumerated_subtypes():
                node['subtypes'] = [tid(sf.data_type) for sf in dt.get_enumerated_subtypes()]
            nodes.append(node)
        for a in ns.aliases:
            nodes.append({'id': tid(a), 'kind': 'alias', 'ns': ns.name, 'name': a.name,
                          'target': ty_json(a.data_type), 'docs': doc_refs(a.doc)})
        for r in ns.routes:
            nodes.append({'id': rid(ns.name, r), 'kind': 'route', 'ns': ns.name, 'name': r.name,
                          'version': r.version, 'docs': doc_refs(r.doc), 'arg': ty_json(r.arg_data_type),
                          'result': ty_json(r.result_data_type), 'error': ty_json(r.error_data_type)})
    return {'nodes': nodes, 'namespaces': nss}


# ----------------------------------------------------------------------------------------------
# the reference: dependencies as the property text lists them, on the unfiltered Api
# ----------------------------------------------------------------------------------------------

class Reference:
    """items: ('t', ns, name) struct/union, ('a', ns, name) alias, ('r', ns, name, version) route.
    `edges[item]` = [(kind, item)], kind in field / parent / subtype / tag-default / alias-target / route-arg /
    route-result / route-error / doc-type / doc-field / doc-route (suffix @type-doc, @field-doc, @alias-doc,
    @route-doc says where the doc string sits)."""

    def __init__(self, api):
        self.api = api
        self.types = {}
        self.aliases = {}
        self.routes = {}
        for ns in api.namespaces.values():
            for d in ns.data_types:
                self.types[(ns.name, d.name)] = d
            for a in ns.aliases:
                self.aliases[(ns.name, a.name)] = a
            for r in ns.routes:
                self.routes[(ns.name, r.name, r.version)] = r
        self.edges = {}
        self.unresolved = []
        self._build()

    # -- items
    def item_of(self, obj):
        Alias, List, Map, Nullable, Struct, Union = _ir()
        if isinstance(obj, Alias):
            return ('a', obj.namespace.name, obj.name)
        return ('t', obj.namespace.name, obj.name)

    @staticmethod
    def label(item):
        if item[0] == 'r':
            return '%s.%s:%d' % (item[1], item[2], item[3])
        return '%s.%s' % (item[1], item[2])

    def mentions(self, t):
        """user types and aliases written in a type expression, through List / Map / Nullable"""
        Alias, List, Map, Nullable, Struct, Union = _ir()
        out = []
        stack = [t]
        while stack:
            x = stack.pop()
            if isinstance(x, (Nullable, List)):
                stack.append(x.data_type)
            elif isinstance(x, Map):
                stack.append(x.value_data_type)
                stack.append(x.key_data_type)
            elif isinstance(x, (Struct, Union, Alias)):
                out.append(self.item_of(x))
        return out

    def doc_items(self, ns_name, doc, where):
        """what the doc references of `doc`, written in namespace `ns_name`, denote"""
        out = []
        if not doc:
            return out
        for m in re.finditer(r':([A-z]+):`(.*?)`', doc):
            tag, val = m.group(1), m.group(2)
            parts = val.split('.')
            if tag == 'type':
                key = (ns_name, parts[0]) if len(parts) == 1 else (parts[0], '.'.join(parts[1:]))
                if key in self.types:
                    out.append(('doc-type@' + where, ('t',) + key))
                else:
                    self.unresolved.append((ns_name, tag, val))
            elif tag == 'field':
                if len(parts) == 1:
                    continue
                key = (ns_name, parts[0]) if len(parts) == 2 else (parts[0], parts[1])
                if key in self.types:
                    out.append(('doc-field@' + where, ('t',) + key))
                elif key in self.aliases:
                    out.append(('doc-field@' + where, ('a',) + key))
                else:
                    self.unresolved.append((ns_name, tag, val))
            elif tag == 'route':
                rns, rest = (parts[0], '.'.join(parts[1:])) if len(parts) > 1 else (ns_name, val)
                name, _, ver = rest.partition(':')
                try:
                    key = (rns, name, int(ver) if ver else 1)
                except ValueError:
                    key = None
                if key in self.routes:
                    out.append(('doc-route@' + where, ('r',) + key))
                else:
                    self.unresolved.append((ns_name, tag, val))
        return out

    def _build(self):
        from stone.ir.data_types import TagRef
        Alias, List, Map, Nullable, Struct, Union = _ir()
        for (nsn, name), d in self.types.items():
            e = []
            for f in d.fields:
                e += [('field', x) for x in self.mentions(f.data_type)]
                if getattr(f, 'has_default', False) and isinstance(f.default, TagRef):
                    u = _unwrap_to_user(f.default.union_data_type)
                    e.append(('tag-default', self.item_of(u)))
                e += self.doc_items(nsn, f.doc, 'field-doc')
            if d.parent_type is not None:
                e.append(('parent', self.item_of(d.parent_type)))
            if isinstance(d, Struct) and d.has_enumerated_subtypes():
                e += [('subtype', self.item_of(sf.data_type)) for sf in d.get_enumerated_subtypes()]
            e += self.doc_items(nsn, d.doc, 'type-doc')
            self.edges[('t', nsn, name)] = e
        for (nsn, name), a in self.aliases.items():
            e = [('alias-target', x) for x in self.mentions(a.data_type)]
            e += self.doc_items(nsn, a.doc, 'alias-doc')
            self.edges[('a', nsn, name)] = e
        for (nsn, name, ver), r in self.routes.items():
            e = [('route-arg', x) for x in self.mentions(r.arg_data_type)]
            e += [('route-result', x) for x in self.mentions(r.result_data_type)]
            e += [('route-error', x) for x in self.mentions(r.error_data_type)]
            e += self.doc_items(nsn, r.doc, 'route-doc')
            self.edges[('r', nsn, name, ver)] = e

    def context_variants(self):
        """The documented meaning reads the doc of a member in the namespace that declares it. Two variants for
        attributing a failure to the known defect "an inherited member's doc is read in the namespace of a child":
        `alt` = extra edges from a type to what the docs of its foreign ancestors' members denote when read in the
        type's own namespace; `fragile` = the (holder, item) doc edges of members that have a foreign descendant and
        mention something without a namespace (the real walk may read them elsewhere)."""
        if getattr(self, '_variants', None) is not None:
            return self._variants
        alt = {}
        fragile = set()
        for (nsn, name), d in self.types.items():
            p = d.parent_type
            while p is not None:
                if p.namespace.name != nsn:
                    saved = self.unresolved
                    self.unresolved = []
                    for f in p.fields:
                        child = self.doc_items(nsn, f.doc, 'field-doc')
                        own = self.doc_items(p.namespace.name, f.doc, 'field-doc')
                        child_items = {it for _k, it in child}
                        own_items = {it for _k, it in own}
                        for kind, it in child:
                            if it not in own_items:
                                alt.setdefault(('t', nsn, name), []).append((kind, it))
                        for kind, it in own:
                            if it not in child_items:
                                fragile.add((('t', p.namespace.name, p.name), it))
                    self.unresolved = saved
                p = p.parent_type
        self._variants = (alt, fragile)
        return self._variants

    def closure_variant(self, seed_items, extra=None, without=None):
        seen, work = set(), []
        for _k, it in seed_items:
            if it not in seen:
                seen.add(it)
                work.append(it)
        while work:
            x = work.pop()
            for kind, y in list(self.edges.get(x, ())) + list((extra or {}).get(x, ())):
                if without and (x, y) in without and kind.endswith('@field-doc'):
                    continue
                if y not in seen:
                    seen.add(y)
                    work.append(y)
        return seen

    def seeds(self, wl):
        """[(kind, item)]: whitelisted routes ("*" = all of the namespace) and data types, and what the docs of
        the namespaces named in the whitelist mention. None when the whitelist names something unknown."""
        out = []
        for nsn, reprs in wl['route_whitelist'].items():
            if nsn not in self.api.namespaces:
                return None
            out += self.doc_items(nsn, self.api.namespaces[nsn].doc, 'namespace-doc')
            if reprs == ['*']:
                out += [('whitelisted-route', ('r',) + k) for k in self.routes if k[0] == nsn]
                continue
            for rp in reprs:
                name, sep, ver = rp.partition(':')
                if sep and not ver.isdigit():
                    return None
                key = (nsn, name, int(ver) if sep else 1)
                if key not in self.routes:
                    return None
                out.append(('whitelisted-route', ('r',) + key))
        for nsn, names in wl['datatype_whitelist'].items():
            if nsn not in self.api.namespaces:
                return None
            out += self.doc_items(nsn, self.api.namespaces[nsn].doc, 'namespace-doc')
            for n in names:
                if (nsn, n) not in self.types:
                    return None
                out.append(('whitelisted-type', ('t', nsn, n)))
        return out

    def closure(self, seed_items):
        """least closed set; `why[item]` = (predecessor or None, edge kind) of the first discovery"""
        why = {}
        work = []
        for kind, it in seed_items:
            if it not in why:
                why[it] = (None, kind)
                work.append(it)
        while work:
            x = work.pop()
            for kind, y in self.edges.get(x, ()):
                if y not in why:
                    why[y] = (x, kind)
                    work.append(y)
        return why


# ----------------------------------------------------------------------------------------------
# the real code
# ----------------------------------------------------------------------------------------------

def compile_real(specs, wl=None):
    from stone.frontend.frontend import specs_to_ir
    if wl is None:
        return specs_to_ir(specs)
    return specs_to_ir(specs, route_whitelist_filter=json.loads(json.dumps(wl)))


def retained(api):
    """what the Api shows to a backend: items per kind"""
    types, aliases, routes = set(), set(), set()
    for ns in api.namespaces.values():
        for d in ns.data_types:
            types.add(('t', ns.name, d.name))
        for a in ns.aliases:
            aliases.add(('a', ns.name, a.name))
        for r in ns.routes:
            routes.add(('r', ns.name, r.name, r.version))
    return types, aliases, routes


def dangling_scan(api):
    """every reference held by a retained item must point to a retained item (object identity):
    [(where, holder, target)]"""
    Alias, List, Map, Nullable, Struct, Union = _ir()
    kept = set()
    for ns in api.namespaces.values():
        kept.update(id(d) for d in ns.data_types)
        kept.update(id(a) for a in ns.aliases)

    def mentions(t):
        out, stack = [], [t]
        while stack:
            x = stack.pop()
            if isinstance(x, (Nullable, List)):
                stack.append(x.data_type)
            elif isinstance(x, Map):
                stack += [x.value_data_type, x.key_data_type]
            elif isinstance(x, (Struct, Union, Alias)):
                out.append(x)
        return out

    bad = []
    for ns in api.namespaces.values():
        for d in ns.data_types:
            for f in d.fields:
                for u in mentions(f.data_type):
                    if id(u) not in kept:
                        bad.append(('field-type', '%s.%s' % (tid(d), f.name), tid(u)))
            if d.parent_type is not None and id(d.parent_type) not in kept:
                bad.append(('parent', tid(d), tid(d.parent_type)))
            if isinstance(d, Struct) and d.has_enumerated_subtypes():
                for sf in d.get_enumerated_subtypes():
                    if id(sf.data_type) not in kept:
                        bad.append(('subtype-list', tid(d), tid(sf.data_type)))
            if ns.data_type_by_name.get(d.name) is not d:
                bad.append(('data_type_by_name', tid(d), tid(d)))
        for a in ns.aliases:
            for u in mentions(a.data_type):
                if id(u) not in kept:
                    bad.append(('alias-target', tid(a), tid(u)))
        for r in ns.routes:
            for part in ('arg', 'result', 'error'):
                for u in mentions(getattr(r, part + '_data_type')):
                    if id(u) not in kept:
                        bad.append(('route-' + part, rid(ns.name, r), tid(u)))
        # the same through the accessor backends use for the types of route signatures
        try:
            io = ns.get_route_io_data_types()
        except Exception:      # noqa: BLE001 - not a matter of the filter (a Map in a signature has no name to sort by ...)
            io = []
        for t in io:
            for u in mentions(t):
                if id(u) not in kept:
                    bad.append(('route-io', ns.name, tid(u)))
    return bad


def gen_package(api, root):
    """python_types of `api` into a fresh package under `root`: (pkg, module names) or ('error', exc name, text)"""
    from harness import pygen
    from stone.backends.python_helpers import fmt_namespace
    pkg = 'wl%d_%d' % (os.getpid(), next(_counter))
    try:
        pygen.generate(api, 'python_types', ['--package', pkg], os.path.join(root, pkg))
    except BaseException as e:      # noqa: B902 - the backend may fail by assertion
        return ('error', type(e).__name__, str(e)[:300])
    return (pkg, [fmt_namespace(n) for n in api.namespaces])


def import_batch(root, pkgs, timeout=300):
    """fresh interpreter, every package in turn: {pkg: None | [exception name, text]}"""
    from harness import core
    code = ('import sys, importlib, json\nsys.path.insert(0, %r)\nres = {}\n' % root +
            'for pkg, mods in %r:\n' % ([(p, m) for p, m in pkgs],) +
            '    try:\n        for m in mods:\n            importlib.import_module(pkg + "." + m)\n'
            '        res[pkg] = None\n'
            '    except BaseException as e:\n        res[pkg] = [type(e).__name__, str(e)[:300]]\n'
            'print("RESULT" + json.dumps(res))\n')
    env = dict(os.environ)
    env['PYTHONPATH'] = core.REPO
    p = subprocess.run([sys.executable, '-W', 'ignore', '-c', code], capture_output=True, text=True, timeout=timeout, env=env)
    for line in p.stdout.splitlines():
        if line.startswith('RESULT'):
            return json.loads(line[6:])
    raise RuntimeError('import batch failed: %s' % p.stderr[-800:])


# ----------------------------------------------------------------------------------------------
# specs
# ----------------------------------------------------------------------------------------------

def hand_specs():
    from harness import core
    out = []
    for d in sorted(glob.glob(os.path.join(core.VERIF, 'harness', 'specs', 'graph_*'))):
        files = sorted(glob.glob(os.path.join(d, '*.stone')))
        if files:
            out.append((os.path.basename(d), [(os.path.basename(p), open(p, encoding='utf-8').read()) for p in files]))
    return out


DOC_HEAVY = {'base': 'routes', 'name': 'routes_docs', 'p_doc': 0.7, 'p_doc_ref': 0.8, 'p_alias_use': 0.35,
             'p_stone_cfg': 0.3, 'p_attr': 0.3,
             'w_kind': dict(struct=4.0, union=2.5, alias=2.5, route=5.0, annotation=0.3, annotation_type=0.1)}


def generated_specs(ck, n):
    from harness import specgen
    out = []
    for i in range(n):
        profile = 'routes' if i % 2 == 0 else DOC_HEAVY
        try:
            m = specgen.gen_model(ck.rng, profile)
            files = specgen.render(m, None)
            out.append(('gen%d' % i, [(p, t) for p, t in files]))
        except Exception as e:      # generator trouble is not a finding about stone
            ck.stat('graph.specgen_failed')
            ck.note('specgen failed: %r' % (e,))
    return out


class SpecEnv:
    """one spec: unfiltered Api, its dump, the reference, the full package"""

    def __init__(self, label, specs):
        self.label = label
        self.specs = [list(x) for x in specs]
        self.api = compile_real(specs)
        self.graph = dump_graph(self.api)
        self.ref = Reference(self.api)
        self.all_types, self.all_aliases, self.all_routes = retained(self.api)

    def spec_arg(self):
        return [tuple(x) for x in self.specs]


# ----------------------------------------------------------------------------------------------
# whitelists
# ----------------------------------------------------------------------------------------------

def route_repr(rng, name, version, spell=None):
    if version == 1:
        return name if (spell or rng.choice(['bare', 'bare', 'v1'])) == 'bare' else name + ':1'
    return '%s:%d' % (name, version)


def plan_whitelists(rng, env, budget):
    """[(plan name, whitelist)]"""
    api = env.api
    nss = list(api.namespaces.values())
    with_routes = [ns for ns in nss if ns.routes]
    with_types = [ns for ns in nss if ns.data_types]
    out = [('empty', {'route_whitelist': {}, 'datatype_whitelist': {}})]
    if with_routes:
        out.append(('star-all', {'route_whitelist': {ns.name: ['*'] for ns in with_routes}, 'datatype_whitelist': {}}))
    for ns in with_routes:
        out.append(('star-one', {'route_whitelist': {ns.name: ['*']}, 'datatype_whitelist': {}}))
    for ns in nss:
        if not ns.routes:
            out.append(('star-no-routes', {'route_whitelist': {ns.name: ['*']}, 'datatype_whitelist': {}}))
            break
    singles = []
    for ns in with_routes:
        for r in ns.routes:
            singles.append(('single-route', {'route_whitelist': {ns.name: [route_repr(rng, r.name, r.version)]},
                                             'datatype_whitelist': {}}))
    rng.shuffle(singles)
    out += singles[:max(4, budget // 3)]
    tsingles = []
    for ns in with_types:
        for d in ns.data_types:
            tsingles.append(('single-type', {'route_whitelist': {}, 'datatype_whitelist': {ns.name: [d.name]}}))
    rng.shuffle(tsingles)
    out += tsingles[:max(4, budget // 3)]
    if nss:
        out.append(('ns-only', {'route_whitelist': {rng.choice(nss).name: []}, 'datatype_whitelist': {}}))
        out.append(('ns-only-types', {'route_whitelist': {}, 'datatype_whitelist': {rng.choice(nss).name: []}}))
    while len(out) < budget:
        rw, dw = {}, {}
        for ns in rng.sample(nss, rng.randint(0, len(nss))):
            if ns.routes and rng.random() < 0.75:
                if rng.random() < 0.2:
                    rw[ns.name] = ['*']
                else:
                    k = rng.randint(0, min(4, len(ns.routes)))
                    rw[ns.name] = [route_repr(rng, r.name, r.version) for r in rng.sample(ns.routes, k)]
                    if rw[ns.name] and rng.random() < 0.15:      # the same route twice, two spellings
                        r = rng.choice(ns.routes)
                        rw[ns.name] += [route_repr(rng, r.name, r.version, 'bare'), route_repr(rng, r.name, r.version, 'v1')]
            if ns.data_types and rng.random() < 0.5:
                k = rng.randint(0, min(3, len(ns.data_types)))
                dw[ns.name] = [d.name for d in rng.sample(ns.data_types, k)]
        out.append(('random', {'route_whitelist': rw, 'datatype_whitelist': dw}))
    # ill-formed: both sides must refuse
    bad = []
    if with_routes:
        ns = rng.choice(with_routes)
        bad.append({'route_whitelist': {ns.name: ['no_such_route_zz']}, 'datatype_whitelist': {}})
        bad.append({'route_whitelist': {ns.name: [ns.routes[0].name + ':99']}, 'datatype_whitelist': {}})
        bad.append({'route_whitelist': {ns.name: ['*', ns.routes[0].name]}, 'datatype_whitelist': {}})
        bad.append({'route_whitelist': {ns.name: [ns.routes[0].name + ':x']}, 'datatype_whitelist': {}})
    bad.append({'route_whitelist': {'no_such_ns_zz': ['*']}, 'datatype_whitelist': {}})
    bad.append({'route_whitelist': {'no_such_ns_zz': []}, 'datatype_whitelist': {}})
    bad.append({'route_whitelist': {}, 'datatype_whitelist': {'no_such_ns_zz': []}})
    if nss:
        bad.append({'route_whitelist': {}, 'datatype_whitelist': {nss[0].name: ['NoSuchTypeZz']}})
        al = [(ns, a) for ns in nss for a in ns.aliases]
        if al:
            ns, a = rng.choice(al)
            bad.append({'route_whitelist': {}, 'datatype_whitelist': {ns.name: [a.name]}})
    rng.shuffle(bad)
    out += [('ill-formed', w) for w in bad[:3]]
    return out


def wl_pairs(d):
    return [[k, list(v)] for k, v in d.items()]


def filter_request(env, wl):
    return {'op': 'graph.filter', 'graph': env.graph, 'route_whitelist': wl_pairs(wl['route_whitelist']),
            'datatype_whitelist': wl_pairs(wl['datatype_whitelist'])}


# ----------------------------------------------------------------------------------------------
# judging one (spec, whitelist)
# ----------------------------------------------------------------------------------------------

def crash_cause(env, exc):
    """why a KeyError left the filter on a whitelist that names only existing things"""
    if not isinstance(exc, KeyError) or not exc.args:
        return 'unknown'
    key = exc.args[0]
    api = env.api
    docs = []
    for ns in api.namespaces.values():
        docs.append((ns, ns.doc))
        for d in ns.data_types:
            docs.append((ns, d.doc))
            docs += [(ns, f.doc) for f in d.fields]
        docs += [(ns, a.doc) for a in ns.aliases]
        docs += [(ns, r.doc) for r in ns.routes]
    for ns, doc in docs:
        for tag, val in doc_refs(doc):
            if tag == 'field' and val.count('.') == 2 and val.split('.')[0] == key:
                return 'field-ref-with-namespace'
            if tag == 'field' and val.count('.') == 1 and val.split('.')[0] == key and key in ns.alias_by_name:
                return 'field-ref-through-alias'
    # an inherited member documented with an unqualified reference, read in the namespace of a child
    for ns in api.namespaces.values():
        for d in ns.data_types:
            p = d.parent_type
            while p is not None:
                if p.namespace is not ns:
                    for f in p.fields:
                        for tag, val in doc_refs(f.doc):
                            if tag in ('type', 'field', 'route') and val.split('.')[0].split(':')[0] == key:
                                return 'inherited-member-doc-read-in-child-namespace'
                p = p.parent_type
    return 'unknown'


def judge_filter(env, wl, real):
    """real = ('ok', filtered api) | ('error', exception). Returns (problems, info); a problem is
    (what, signature, detail)."""
    problems = []
    ref = env.ref
    sd = ref.seeds(wl)
    info = {'wellformed': sd is not None}
    if sd is None:
        return problems, info
    why = ref.closure(sd)
    info['closure'] = why
    if real[0] == 'error':
        exc = real[1]
        cause = crash_cause(env, exc)
        problems.append(('the filter raises %s for a whitelist that names only existing routes and types'
                         % type(exc).__name__,
                         {'kind': 'crash', 'exception': type(exc).__name__, 'cause': cause},
                         {'exception': repr(exc)[:300]}))
        return problems, info
    fapi = real[1]
    types, aliases, routes = retained(fapi)
    info['retained'] = (types, aliases, routes)
    want_types = {x for x in why if x[0] == 't'}
    want_routes = {x for x in why if x[0] == 'r'}
    # 1. whitelisted items kept
    for kind, it in sd:
        if kind == 'whitelisted-route' and it not in routes:
            problems.append(('a whitelisted route is not retained', {'kind': 'whitelisted-dropped', 'item': 'route'},
                             {'item': ref.label(it)}))
        if kind == 'whitelisted-type' and it not in types:
            problems.append(('a whitelisted data type is not retained', {'kind': 'whitelisted-dropped', 'item': 'type'},
                             {'item': ref.label(it)}))
    # 2. closed. `reach` = what is reachable from the whitelist through items that ARE retained (aliases always are);
    #    a failure is an edge from a reached, retained holder to an item that is not retained (the frontier only:
    #    items missing merely because their holder is missing are consequences, not reported)
    wl_routes = {it for kind, it in sd if kind == 'whitelisted-route'}
    alt_edges, fragile = ref.context_variants()
    closure_alt = ref.closure_variant(sd, extra=alt_edges) if alt_edges else set(why)

    def kept(x):
        return x in types if x[0] == 't' else (x in routes if x[0] == 'r' else x in aliases)
    frontier = []
    reach, work = set(), []
    for kind, it in sd:
        if not kept(it):
            if kind not in ('whitelisted-route', 'whitelisted-type'):
                frontier.append((None, kind, it))
        elif it not in reach:
            reach.add(it)
            work.append(it)
    while work:
        x = work.pop()
        for kind, y in ref.edges.get(x, ()):
            if not kept(y):
                frontier.append((x, kind, y))
            elif y not in reach:
                reach.add(y)
                work.append(y)
    seen_sigs = set()
    for holder, kind, m in frontier:
        edge, _, where = kind.partition('@')
        if holder is None:
            hc = 'whitelisted-namespace'
        elif holder[0] == 'r':
            hc = 'whitelisted-route' if holder in wl_routes else 'doc-referenced-route'
        else:
            hc = 'alias' if holder[0] == 'a' else 'data-type'
        sig = {'kind': 'not-closed', 'edge': edge, 'holder': hc, 'missing': 'route' if m[0] == 'r' else 'type'}
        if where:
            sig['where'] = where
        if where == 'field-doc' and (holder, m) in fragile:
            # mentioned by the doc of a member that a descendant in another namespace inherits (and reads differently)
            sig['cause'] = 'inherited-member-doc-read-in-child-namespace'
        key = json.dumps(sig, sort_keys=True)
        if key in seen_sigs:
            continue
        seen_sigs.add(key)
        problems.append(('the filtered Api lacks the %s %s, which the retained %s depends on (%s)' % (
            'route' if m[0] == 'r' else 'data type', ref.label(m),
            ('%s %s' % (hc, ref.label(holder))) if holder else 'whitelist (doc of a namespace it names)', kind),
            sig, {'missing': ref.label(m), 'holder': ref.label(holder) if holder else None,
                  'all_missing': sorted(ref.label(x) for x in (want_types - types) | (want_routes - routes))[:12]}))
    # 3. minimal: no data type outside the closure
    extra = sorted(types - want_types)
    if extra:
        sig = {'kind': 'outside-closure', 'item': 'type'}
        if all(x in closure_alt for x in extra):
            sig['cause'] = 'inherited-member-doc-read-in-child-namespace'
        problems.append(('a data type outside the dependency closure of the whitelist is retained',
                         sig, {'extra': [ref.label(x) for x in extra][:8]}))
    extra_r = sorted(routes - want_routes)
    if extra_r:
        sig = {'kind': 'outside-closure', 'item': 'route'}
        if all(x in closure_alt for x in extra_r):
            sig['cause'] = 'inherited-member-doc-read-in-child-namespace'
        problems.append(('a route outside the dependency closure of the whitelist is retained',
                         sig, {'extra': [ref.label(x) for x in extra_r][:8]}))
    # 4. no dangling reference inside the filtered Api
    seen_kinds = set()
    for where, holder, target in dangling_scan(fapi):
        if where in seen_kinds:
            continue
        seen_kinds.add(where)
        problems.append(('a retained %s refers to the removed type %s (%s)' % (where.split('-')[0], target, holder),
                         {'kind': 'dangling', 'ref': where}, {'holder': holder, 'target': target}))
    return problems, info


def item_of_id(graph_kinds, i):
    k = graph_kinds.get(i)
    ns, rest = i.split('.', 1)
    if k == 'route':
        name, ver = rest.rsplit(':', 1)
        return ('r', ns, name, int(ver))
    return ('a' if k == 'alias' else 't', ns, rest)


def shrink_whitelist(env, wl, sig, judge_one):
    """drop namespaces / entries while the same signature still fails"""
    cur = json.loads(json.dumps(wl))
    changed = True
    rounds = 0
    while changed and rounds < 40:
        changed = False
        rounds += 1
        for part in ('route_whitelist', 'datatype_whitelist'):
            for nsn in list(cur[part]):
                trial = json.loads(json.dumps(cur))
                del trial[part][nsn]
                if judge_one(trial, sig):
                    cur, changed = trial, True
                    continue
                for i in range(len(cur[part][nsn]) - 1, -1, -1):
                    trial = json.loads(json.dumps(cur))
                    del trial[part][nsn][i]
                    if judge_one(trial, sig):
                        cur, changed = trial, True
    return cur


def import_signature(exc, dangling_kinds):
    """an import failure is attributed to a removed alias target when the filtered Api has such an alias (the exception
    class then depends on where the alias sits: NameError in its own module, AttributeError across modules)"""
    if 'alias-target' in dangling_kinds:
        return {'kind': 'import-fails', 'cause': 'alias-target-removed'}
    return {'kind': 'import-fails', 'cause': 'other', 'exception': exc, 'dangling': dangling_kinds}


def run_real(env, wl):
    try:
        return ('ok', compile_real(env.spec_arg(), wl))
    except Exception as e:      # noqa: BLE001 - every exception class is an outcome here
        return ('error', e)


def drive(ck, reqs):
    """ck.driver, retried when a concurrent `lake build` of somebody else is relinking the executable"""
    import time
    for attempt in range(4):
        try:
            return ck.driver(reqs)
        except (RuntimeError, OSError) as e:
            if attempt == 3 or not ('driver executable missing' in str(e) or isinstance(e, OSError)):
                raise
            time.sleep(5 + 10 * attempt)
            ck.build()
    raise RuntimeError('driver unavailable')


def _sig_eq(a, b):
    return json.dumps(a, sort_keys=True) == json.dumps(b, sort_keys=True)


# ----------------------------------------------------------------------------------------------
# suite graph.filter (C20)
# ----------------------------------------------------------------------------------------------

def suite_filter(ck, sources=None, import_cap=None):
    from harness import core
    if sources is None:
        sources = hand_specs() + generated_specs(ck, ck.scale(10, 90))
    budget = ck.scale(16, 36)
    import_cap = import_cap if import_cap is not None else ck.scale(8, 16)
    deferred = []       # (env, kinds, pending, reqs): one driver call for all specs (start-up of the driver dominates)
    for label, specs in sources:
        try:
            env = SpecEnv(label, specs)
        except Exception as e:      # generator / spec trouble, not a finding about the filter
            ck.stat('graph.spec_rejected')
            ck.note('spec %s rejected by the frontend: %r' % (label, e))
            continue
        ck.stat('graph.specs')
        ck.hist('graph.namespaces', len(env.api.namespaces))
        ck.hist('graph.items', '%d0s' % (len(env.graph['nodes']) // 10))
        if env.ref.unresolved:
            ck.stat('graph.reference_unresolved_docref', len(env.ref.unresolved))
        kinds = {n['id']: n['kind'] for n in env.graph['nodes']}
        plans = plan_whitelists(ck.rng, env, budget)
        reqs, pending = [], []
        root = core.scratch('stone-verif-c20-')
        packages = []       # (pkg, mods, case index)
        full_pkg = gen_package(env.api, root)
        for plan, wl in plans:
            real = run_real(env, wl)
            problems, info = judge_filter(env, wl, real)
            ck.hist('graph.filter.plan', plan)
            if not info['wellformed']:
                ck.hist('graph.filter.outcome', 'ill-formed:' + (type(real[1]).__name__ if real[0] == 'error' else 'accepted'))
                if real[0] == 'ok':
                    ck.stat('graph.filter.illformed_accepted')
                ck.case(('filter', label, json.dumps(wl, sort_keys=True)), nontrivial=False)
            else:
                if real[0] == 'ok':
                    t, a, r = info['retained']
                    removed = (len(env.all_types) - len(t)) + (len(env.all_routes) - len(r))
                    ck.case(('filter', label, json.dumps(wl, sort_keys=True)), nontrivial=removed > 0 and (len(t) + len(r)) > 0)
                    ck.hist('graph.filter.outcome', 'ok')
                    ck.hist('graph.filter.types_kept_pct', '%d0%%' % (10 * len(t) // max(1, len(env.all_types))))
                    edge_kinds = {k for _p, k in info['closure'].values()}
                    for k in edge_kinds:
                        ck.hist('graph.filter.closure_edge_kinds', k)
                else:
                    ck.case(('filter', label, json.dumps(wl, sort_keys=True)), nontrivial=True)
                    ck.hist('graph.filter.outcome', 'raises:' + type(real[1]).__name__)
            for what, sig, detail in problems:
                def still(trial, sig):
                    ps, _ = judge_filter(env, trial, run_real(env, trial))
                    return any(_sig_eq(s, sig) for _w, s, _d in ps)
                small = shrink_whitelist(env, wl, sig, still) if ck._match_finding(sig) is None and \
                    json.dumps(sig, sort_keys=True) not in [v['key'] for v in ck.violations] else wl
                ps2, _ = judge_filter(env, small, run_real(env, small))
                hit = [p for p in ps2 if _sig_eq(p[1], sig)]
                ck.failing_input(hit[0][0] if hit else what, sig,
                                 {'suite': 'graph.filter', 'spec': label, 'specs': env.specs, 'whitelist': small,
                                  'detail': hit[0][2] if hit else detail})
            idx = len(pending)
            reqs.append(filter_request(env, wl))
            pending.append((plan, wl, real, info, problems))
            if real[0] == 'ok' and info['wellformed'] and full_pkg[0] != 'error' and \
                    len([1 for p in packages]) < import_cap:
                t, a, r = info['retained']
                if (t, r) != (env.all_types, env.all_routes):
                    g = gen_package(real[1], root)
                    if g[0] == 'error':
                        ck.failing_input('python_types fails on the filtered Api while it handles the full Api',
                                         {'kind': 'generate-fails', 'exception': g[1]},
                                         {'suite': 'graph.filter', 'spec': label, 'specs': env.specs, 'whitelist': wl,
                                          'detail': g[2]})
                    else:
                        packages.append((g[0], g[1], idx))
        # imports: one fresh interpreter per spec
        if full_pkg[0] == 'error':
            ck.stat('graph.import.full_api_not_generated')
        else:
            res = import_batch(root, [(full_pkg[0], full_pkg[1])] + [(p, m) for p, m, _ in packages])
            if res[full_pkg[0]] is not None:
                ck.stat('graph.import.full_api_not_importable')
                ck.hist('graph.import.full_api_failure', res[full_pkg[0]][0])
            else:
                ck.stat('graph.import.full_api_importable')
                for pkg, _mods, idx in packages:
                    plan, wl, real, info, problems = pending[idx]
                    ck.stat('graph.import.cases')
                    if res[pkg] is None:
                        ck.stat('graph.import.ok')
                        continue
                    exc, text = res[pkg]
                    dang = sorted({w for w, _h, _t in dangling_scan(real[1])})
                    sig = import_signature(exc, dang)

                    def still_imp(trial, sig):
                        rr = run_real(env, trial)
                        if rr[0] != 'ok':
                            return False
                        r2 = core.scratch('stone-verif-c20s-')
                        g2 = gen_package(rr[1], r2)
                        if g2[0] == 'error':
                            return False
                        out = import_batch(r2, [(g2[0], g2[1])])[g2[0]]
                        return out is not None and _sig_eq(sig, import_signature(
                            out[0], sorted({w for w, _h, _t in dangling_scan(rr[1])})))
                    fresh = ck._match_finding(sig) is None and \
                        json.dumps(sig, sort_keys=True) not in [v['key'] for v in ck.violations]
                    small = shrink_whitelist(env, wl, sig, still_imp) if fresh else wl
                    ck.failing_input('the module generated from the filtered Api does not import (%s) while the one '
                                     'generated from the full Api does' % exc, sig,
                                     {'suite': 'graph.filter', 'spec': label, 'specs': env.specs, 'whitelist': small,
                                      'detail': {'exception': exc, 'message': text}})
        slim = []
        for plan, wl, real, info, problems in pending:
            if real[0] == 'ok' and 'retained' not in info:
                info['retained'] = retained(real[1])
            slim.append((plan, wl, (real[0], None if real[0] == 'ok' else real[1]), info, problems))
        deferred.append((env, kinds, slim, reqs))
        if sum(len(d[3]) for d in deferred) >= 600:
            _flush(ck, deferred)
    _flush(ck, deferred)


def _flush(ck, deferred):
    allreqs = [r for _e, _k, _p, reqs in deferred for r in reqs]
    rep = drive(ck, allreqs) if allreqs else []
    pos = 0
    for env, kinds, pending, reqs in deferred:
        _compare_with_model(ck, env, kinds, pending, rep[pos:pos + len(reqs)])
        pos += len(reqs)
    del deferred[:]


def order_sensitive(env, info, real):
    """some data type the walk can reach (reference closure or real result) has an ancestor in another namespace
    with a member whose doc holds a reference written without a namespace"""
    reach = set(x for x in (info.get('closure') or {}) if x[0] == 't')
    if info.get('retained'):
        reach |= set(info['retained'][0])
    if real[0] == 'error' or not info.get('wellformed'):
        reach |= env.all_types
    for x in reach:
        d = env.ref.types.get((x[1], x[2]))
        p = d.parent_type if d is not None else None
        while p is not None:
            if p.namespace is not d.namespace:
                for f in p.fields:
                    for tag, val in doc_refs(f.doc):
                        if (tag == 'type' and '.' not in val) or (tag == 'route' and '.' not in val) or \
                                (tag == 'field' and val.count('.') == 1):
                            return True
            p = p.parent_type
    return False


def _compare_with_model(ck, env, kinds, pending, rep):
    label = env.label
    for (plan, wl, real, info, problems), m in zip(pending, rep):
        if 'protocol_error' in m:
            ck.disagree('graph.filter', {'spec': label, 'whitelist': wl}, 'n/a', m)
            continue
        hyps = m['hyps']
        mres = m['result']
        if real[0] == 'ok':
            t, a, r = info['retained']
            realc = {'types': sorted(Reference.label(x) for x in t), 'routes': sorted(Reference.label(x) for x in r),
                     'aliases': sorted(Reference.label(x) for x in a)}
        else:
            realc = {'error': True}
        if 'ok' in mres:
            modelc = {'types': sorted(mres['ok']['types']), 'routes': sorted(mres['ok']['routes']),
                      'aliases': sorted(mres['ok']['aliases'])}
        else:
            modelc = {'error': True}
        case = {'spec': label, 'whitelist': wl, 'specs': env.specs if len(json.dumps(env.specs)) < 4000 else label}
        if realc == modelc:
            ck.agree('graph.filter')
        elif not hyps['docs_agree'] and order_sensitive(env, info, real):
            # the doc of an inherited member is read in the namespace of a child that resolves it differently: the
            # outcome of the real walk depends on the iteration order of Python sets (which call reaches the shared
            # Field object first), so only the oracles judge this case
            ck.stat('graph.filter.order_dependent_mismatch')
        else:
            ck.disagree('graph.filter', case, _brief(realc), _brief(modelc))
        if real[0] == 'error' and 'error' in mres:
            want = type(real[1]).__name__
            if mres['error']['kind'] == want:
                ck.agree('graph.filter.error_kind')
            elif hyps['docs_agree'] or not order_sensitive(env, info, real):
                ck.disagree('graph.filter.error_kind', case, want, mres['error'])
        # the Lean reference closure against the Python reference closure (spec level both)
        if info['wellformed']:
            pyc = sorted(Reference.label(x) for x in info['closure'])
            if sorted(m['closure']) == pyc:
                ck.agree('graph.closure')
            else:
                ck.disagree('graph.closure', case, _brief(pyc), _brief(sorted(m['closure'])))
            if not hyps['refs_ok']:
                ck.disagree('graph.wf', case, 'dump of a compiled Api', {'refs_ok': False})
            for h, v in hyps.items():
                ck.hist('graph.hyp.' + h, v)
            # the _partial theorems, evaluated: with the hypotheses, retained types = types of the closure
            # filter_eq_closure / filter_routes_eq_closure, evaluated: with the hypotheses (which every dump of a compiled Api
            # satisfies since the walk was repaired), retained = closure
            if 'ok' in mres and hyps['docs_agree'] and hyps['tag_defaults_ok']:
                ctypes = sorted(i for i in m['closure'] if kinds.get(i) in ('struct', 'union'))
                if ctypes == sorted(mres['ok']['types']):
                    ck.agree('graph.thm.filter_types_eq_closure')
                else:
                    ck.disagree('graph.thm.filter_types_eq_closure', case, ctypes, sorted(mres['ok']['types']))
                if True:
                    croutes = sorted(i for i in m['closure'] if kinds.get(i) == 'route')
                    if croutes == sorted(mres['ok']['routes']):
                        ck.agree('graph.thm.filter_routes_eq_closure')
                    else:
                        ck.disagree('graph.thm.filter_routes_eq_closure', case, croutes, sorted(mres['ok']['routes']))
    if len(ck.samples) < 6 and pending:
        for plan, wl, real, info, problems in pending:
            if plan == 'random' and real[0] == 'ok' and info['wellformed']:
                t, a, r = info['retained']
                ck.sample({'spec': label, 'whitelist': wl,
                           'kept': '%d/%d types, %d/%d routes, %d aliases' % (
                               len(t), len(env.all_types), len(r), len(env.all_routes), len(a)),
                           'closure_size': len(info['closure'])})
                break


def _brief(x):
    s = json.dumps(x, sort_keys=True, default=repr)
    return s if len(s) < 1500 else s[:1500] + '…'


# ----------------------------------------------------------------------------------------------
# edge grid: every kind of dependency edge x every shape it can be written in x every kind of holder, one at a time
# ----------------------------------------------------------------------------------------------

GRID_WRAPS = [
    ('bare', '%s', None), ('nullable', '%s?', None), ('list', 'List(%s)', None), ('list-nullable', 'List(%s)?', None),
    ('list-of-nullable', 'List(%s?)', None), ('list-list', 'List(List(%s))', None), ('map', 'Map(String, %s)', None),
    ('map-nullable', 'Map(String, %s)?', None), ('map-of-list', 'Map(String, List(%s))', None),
    ('list-of-map', 'List(Map(String, %s))', None), ('map-of-map', 'Map(String, Map(String, %s?))', None),
    # (name, field type, alias declarations; {x} = case number, %s = target)
    ('alias', 'X{x}', 'alias X{x} = %s\n'), ('alias-nullable', 'X{x}', 'alias X{x} = %s?\n'),
    ('nullable-alias', 'X{x}?', 'alias X{x} = %s\n'), ('alias-of-list', 'X{x}', 'alias X{x} = List(%s)\n'),
    ('alias-of-map', 'X{x}', 'alias X{x} = Map(String, %s)\n'), ('list-of-alias', 'List(X{x})', 'alias X{x} = %s\n'),
    ('map-of-alias', 'Map(String, X{x})', 'alias X{x} = %s\n'),
    ('alias-of-alias', 'Y{x}', 'alias X{x} = %s\nalias Y{x} = X{x}\n'),
    ('alias-of-list-of-alias', 'Y{x}', 'alias X{x} = %s\nalias Y{x} = List(X{x}?)\n'),
]


class _Grid:
    """collects, case by case, the text of the namespaces ga (holders, root routes) and gb (imported by ga)"""

    def __init__(self, family):
        self.family = family
        self.cases = []           # [(ga lines, gb lines)]

    def new(self):
        self.cases.append(([], []))
        return len(self.cases)

    @property
    def ga(self):
        return self.cases[-1][0]

    @property
    def gb(self):
        return self.cases[-1][1]

    def target(self, x, foreign, name='T', kind='struct'):
        """declare the target type; how ga writes it"""
        text = ('struct %s%d\n    v Int32\n\n' if kind == 'struct' else 'union %s%d\n    v\n    w Int32\n\n') % (name, x)
        (self.gb if foreign else self.ga).append(text)
        return ('gb.%s%d' if foreign else '%s%d') % (name, x)

    def specs(self, chunk):
        """the cases, `chunk` to a spec (the cost of one filter run grows with the size of the spec)"""
        out = []
        for k in range(0, len(self.cases), chunk):
            part = self.cases[k:k + chunk]
            ga = 'namespace ga\n\nimport gb\n\n' + ''.join(''.join(a) for a, _b in part)
            gb = 'namespace gb\n\nstruct Unused\n    u Int32\n\n' + ''.join(''.join(b) for _a, b in part)
            out.append(('grid:%s/%d' % (self.family, k // chunk), [('ga.stone', ga), ('gb.stone', gb)]))
        return out


def _wrap(wrap, x, ref, g, alias_foreign=False):
    """field type text for target `ref` in wrap `wrap`; alias declarations go to ga (or, alias_foreign, to gb:
    then the target must be a gb type and is written without prefix there)"""
    _n, ty, decl = wrap
    if decl is None:
        return ty % ref
    if alias_foreign:
        g.gb.append(decl.replace('{x}', str(x)) % ref.split('.', 1)[1] + '\n')
        return ty.replace('X{x}', 'gb.X{x}').replace('Y{x}', 'gb.Y{x}').replace('{x}', str(x))
    g.ga.append(decl.replace('{x}', str(x)) % ref + '\n')
    return ty.replace('{x}', str(x))


def edge_grid_specs(chunk=12):
    """[(label 'grid:<family>', specs)]: in every case one root route r<x> whose only connection to the target
    type(s) of the case is the edge the case is about"""
    out = []
    # -- field types, by holder kind
    for holder in ('struct', 'union'):
        for foreign in (False, True):
            g = _Grid('field-%s-%s' % (holder, 'foreign' if foreign else 'same'))
            for wrap in GRID_WRAPS:
                x = g.new()
                ref = g.target(x, foreign)
                ty = _wrap(wrap, x, ref, g)
                g.ga.append(('struct A%d\n    f %s\n\n' if holder == 'struct' else 'union A%d\n    n\n    f %s\n\n') % (x, ty))
                g.ga.append('route r%d (A%d, Void, Void)\n\n' % (x, x))
            out += g.specs(chunk)
    # -- aliases declared in the other namespace
    g = _Grid('field-foreign-alias')
    for wrap in GRID_WRAPS:
        if wrap[2] is None:
            continue
        x = g.new()
        ref = g.target(x, True)
        ty = _wrap(wrap, x, ref, g, alias_foreign=True)
        g.ga.append('struct A%d\n    f %s\n\n' % (x, ty))
        g.ga.append('route r%d (A%d, Void, Void)\n\n' % (x, x))
    out += g.specs(chunk)
    # -- route signatures
    for foreign in (False, True):
        g = _Grid('route-%s' % ('foreign' if foreign else 'same'))
        for slot in range(3):
            for wrap in GRID_WRAPS:
                if wrap[0] in ('list-list', 'map-of-map', 'alias-of-list-of-alias') and slot != 1:
                    continue
                x = g.new()
                ref = g.target(x, foreign, kind='union' if slot == 2 else 'struct')
                ty = _wrap(wrap, x, ref, g)
                sig = ['Void', 'Void', 'Void']
                sig[slot] = ty
                g.ga.append('route r%d (%s)\n\n' % (x, ', '.join(sig)))
        x = g.new()      # versions of one route with different signatures
        a, b = g.target(x, foreign, 'T'), g.target(x, foreign, 'V')
        g.ga.append('route r%d (%s, Void, Void)\n\nroute r%d:2 (%s, Void, Void)\n\n' % (x, a, x, b))
        out += g.specs(chunk)
    # -- parents, subtypes, tag defaults
    g = _Grid('inheritance')
    for foreign in (False, True):
        x = g.new()                                    # parent
        ref = g.target(x, foreign)
        g.ga.append('struct A%d extends %s\n    a Int32\n\nroute r%d (A%d, Void, Void)\n\n' % (x, ref, x, x))
        x = g.new()                                    # grandparent with a field type of its own
        (g.gb if foreign else g.ga).append('struct L%d\n    l Int32\n\nstruct G%d\n    g L%d\n\nstruct T%d extends G%d\n    v Int32\n\n' % (x, x, x, x, x))
        g.ga.append('struct A%d extends %sT%d\n    a Int32\n\nroute r%d (List(A%d), Void, Void)\n\n' % (x, 'gb.' if foreign else '', x, x, x))
        x = g.new()                                    # union parent
        ref = g.target(x, foreign, kind='union')
        g.ga.append('union A%d extends %s\n    a\n\nroute r%d (Void, Void, A%d)\n\n' % (x, ref, x, x))
        x = g.new()                                    # tag default: the union, and what the union's members mention
        ns = g.gb if foreign else g.ga
        ns.append('struct W%d\n    w Int32\n\nunion U%d\n    t\n    m W%d\n\n' % (x, x, x))
        g.ga.append('struct A%d\n    f %sU%d = t\n\nroute r%d (A%d, Void, Void)\n\n' % (x, 'gb.' if foreign else '', x, x, x))
        x = g.new()                                    # tag default through an alias of the union
        ns.append('union U%d\n    t\n    m Int32\n\n' % x)
        g.ga.append('alias X%d = %sU%d\n\nstruct A%d\n    f X%d = t\n\nroute r%d (A%d, Void, Void)\n\n' % (x, 'gb.' if foreign else '', x, x, x, x, x))
    x = g.new()                                        # root of a tree: subtypes and what they mention
    g.ga.append('struct A%d\n    union\n        s S%d\n        s2 Q%d\n    a Int32\n\nstruct S%d extends A%d\n    f L%d\n\n'
                'struct Q%d extends A%d\n    q List(M%d)?\n\nstruct L%d\n    l Int32\n\nstruct M%d\n    m Int32\n\n'
                'route r%d (A%d, Void, Void)\n\n' % ((x,) * 13))
    x = g.new()                                        # a leaf of a tree: the root, the siblings and what they mention
    g.ga.append('struct B%d\n    union_closed\n        s S%d\n        s2 Q%d\n    b M%d?\n\nstruct S%d extends B%d\n    f Int32\n\n'
                'struct Q%d extends B%d\n    q Map(String, L%d)\n\nstruct L%d\n    l Int32\n\nstruct M%d\n    m Int32\n\n'
                'route r%d (Void, S%d, Void)\n\n' % ((x,) * 13))
    out += g.specs(chunk)
    # -- doc references: where the doc sits x what it mentions
    for foreign in (False, True):
        g = _Grid('docs-%s' % ('foreign' if foreign else 'same'))
        p = 'gb.' if foreign else ''

        def mention(x, tag):
            """(doc text, declarations) for a reference of kind `tag` to something of case x"""
            ns = g.gb if foreign else g.ga
            if tag == 'type':
                ns.append('struct T%d\n    v L%d\n\nstruct L%d\n    l Int32\n\n' % (x, x, x))
                return 'See :type:`%sT%d`.' % (p, x)
            if tag == 'union':
                ns.append('union T%d\n    v\n    m L%d\n\nstruct L%d\n    l Int32\n\n' % (x, x, x))
                return 'See :type:`%sT%d`.' % (p, x)
            if tag == 'field':
                ns.append('struct T%d\n    v Int32\n\n' % x)
                return 'See :field:`%sT%d.v`.' % (p, x)
            if tag == 'field-alias':
                ns.append('struct T%d\n    v Int32\n\n' % x)
                g.ga.append('alias TA%d = %sT%d\n\n' % (x, p, x))
                return 'See :field:`TA%d.v`.' % x
            if tag == 'route':
                ns.append('struct T%d\n    v Int32\n\nstruct E%d\n    e Int32\n\nroute m%d (Void, List(T%d), E%d?)\n\n' % (x, x, x, x, x))
                return 'See :route:`%sm%d`.' % (p, x)
            if tag == 'route-v2':
                ns.append('struct T%d\n    v Int32\n\nstruct V%d\n    e Int32\n\nroute m%d (T%d, Void, Void)\n\n'
                          'route m%d:2 (V%d, Void, Void)\n\n' % (x, x, x, x, x, x))
                return 'See :route:`%sm%d:2`.' % (p, x)
            raise ValueError(tag)

        for tag in ('type', 'union', 'field', 'field-alias', 'route', 'route-v2'):
            for where in ('struct', 'union', 'field', 'void-tag', 'member', 'alias', 'route', 'inherited-field', 'subtype-field',
                          'parent', 'nested-field', 'result-field'):
                x = g.new()
                doc = '"%s"' % mention(x, tag)
                if where == 'struct':
                    body = 'struct A%d\n    %s\n    a Int32\n\nroute r%d (A%d, Void, Void)\n\n' % (x, doc, x, x)
                elif where == 'union':
                    body = 'union A%d\n    %s\n    a\n\nroute r%d (A%d, Void, Void)\n\n' % (x, doc, x, x)
                elif where == 'field':
                    body = 'struct A%d\n    a Int32\n        %s\n\nroute r%d (A%d, Void, Void)\n\n' % (x, doc, x, x)
                elif where == 'void-tag':
                    body = 'union A%d\n    a\n        %s\n    b Int32\n\nroute r%d (A%d, Void, Void)\n\n' % (x, doc, x, x)
                elif where == 'member':
                    body = 'union A%d\n    a\n    b Int32\n        %s\n\nroute r%d (Void, Void, A%d)\n\n' % (x, doc, x, x)
                elif where == 'alias':
                    body = 'alias X%d = Int32\n    %s\n\nstruct A%d\n    a X%d\n\nroute r%d (A%d, Void, Void)\n\n' % (x, doc, x, x, x, x)
                elif where == 'route':
                    body = 'route r%d (Void, Void, Void)\n    %s\n\n' % (x, doc)
                elif where == 'inherited-field':
                    body = ('struct B%d\n    b Int32\n        %s\n\nstruct A%d extends B%d\n    a Int32\n\n'
                            'route r%d (A%d, Void, Void)\n\n' % (x, doc, x, x, x, x))
                elif where == 'subtype-field':
                    body = ('struct A%d\n    union\n        s S%d\n    a Int32\n\nstruct S%d extends A%d\n    f Int32\n        %s\n\n'
                            'route r%d (A%d, Void, Void)\n\n' % (x, x, x, x, doc, x, x))
                elif where == 'parent':
                    body = ('struct B%d\n    %s\n    b Int32\n\nstruct A%d extends B%d\n    a Int32\n\n'
                            'route r%d (A%d, Void, Void)\n\n' % (x, doc, x, x, x, x))
                elif where == 'nested-field':
                    body = ('struct N%d\n    n Int32\n        %s\n\nstruct A%d\n    a Map(String, List(N%d?))\n\n'
                            'route r%d (A%d, Void, Void)\n\n' % (x, doc, x, x, x, x))
                else:
                    body = ('struct A%d\n    a Int32\n        %s\n\nroute r%d (Void, A%d?, Void)\n\n' % (x, doc, x, x))
                g.ga.append(body)
        out += g.specs(chunk)
    # -- the doc of a namespace named in the whitelist
    ga = ('namespace ga\n    "Start with :type:`Intro` and :route:`hello`; see :type:`gb.Far` and :field:`Intro.i`."\n\nimport gb\n\n'
          'struct Intro\n    i Int32\n\nstruct HelloArg\n    h Int32\n\nstruct Other\n    o Int32\n\nstruct Quiet\n    q Int32\n\n'
          'route hello (HelloArg, Void, Void)\n\nroute another (Other, Void, Void)\n\nroute noop (Void, Void, Void)\n\n')
    gb = ('namespace gb\n    "See :type:`FarDoc`."\n\nstruct Far\n    f Int32\n\nstruct FarDoc\n    f Int32\n\nstruct Unused\n    u Int32\n\n'
          'route reach (Far, Void, Void)\n\n')
    out.append(('grid:namespace-doc', [('ga.stone', ga), ('gb.stone', gb)]))
    return out


def plan_grid(rng, env, full=False):
    """every route alone (both spellings of version 1 in turn), "*" for the namespace of the holders; a few data types
    alone, a pair of routes, the namespaces alone (all of them with `full`)"""
    api = env.api
    out = []
    for ns in api.namespaces.values():
        for i, r in enumerate(ns.routes):
            out.append(('single-route', {'route_whitelist': {ns.name: [route_repr(rng, r.name, r.version, ('bare', 'v1')[i % 2])]},
                                         'datatype_whitelist': {}}))
        types = list(ns.data_types)
        rng.shuffle(types)
        for d in types[:len(types) if full else 2]:
            out.append(('single-type', {'route_whitelist': {}, 'datatype_whitelist': {ns.name: [d.name]}}))
        if full or ns.name == 'ga':
            if ns.routes:
                out.append(('star-one', {'route_whitelist': {ns.name: ['*']}, 'datatype_whitelist': {}}))
            out.append(('ns-only', {'route_whitelist': {ns.name: []}, 'datatype_whitelist': {}}))
        if full or ns.doc:
            out.append(('ns-only-types', {'route_whitelist': {}, 'datatype_whitelist': {ns.name: []}}))
    nss = [ns for ns in api.namespaces.values() if len(ns.routes) >= 2]
    for _ in range(4 if full else 1):
        if nss:
            ns = rng.choice(nss)
            rs = rng.sample(ns.routes, 2)
            out.append(('random', {'route_whitelist': {ns.name: [route_repr(rng, r.name, r.version) for r in rs]},
                                   'datatype_whitelist': {}}))
    return out


class FastFilter:
    """The real parser once, then the real IRGenerator per whitelist on fresh lists of the same AST nodes (what
    specs_to_ir does, minus building the parser tables again for every run). Whatever fails on this path is
    evaluated again through specs_to_ir before it is reported."""

    def __init__(self, specs):
        from stone.frontend.parser import ParserFactory
        pf = ParserFactory(debug=False)
        self.asts = []
        for path, text in specs:
            p = pf.get_parser()
            a = p.parse(text, path)
            if p.got_errors_parsing():
                raise ValueError('does not parse: %r' % (p.get_errors()[0],))
            if a:
                self.asts.append(a)

    def run(self, wl):
        from stone.frontend.ir_generator import IRGenerator
        try:
            return ('ok', IRGenerator([list(a) for a in self.asts], '0.1b1', debug=False,
                                      route_whitelist_filter=json.loads(json.dumps(wl))).generate_IR())
        except Exception as e:      # noqa: BLE001
            return ('error', e)


def suite_edge_grid(ck):
    """graph.filter on the edge grid: one case = one root route whose only connection to its target types is one edge
    (kind x written shape x holder x namespace). Every root route is whitelisted alone."""
    from harness import core
    full = ck.tier == 'thorough'
    root = core.scratch('stone-verif-c20g-')
    packages, fulls, deferred = [], {}, []
    import_p = 1.0 if full else 0.3
    for label, specs in edge_grid_specs():
        try:
            env = SpecEnv(label, specs)
            fast = FastFilter(specs)
        except Exception as e:      # noqa: BLE001 - the grid is written for the compiler as it is: a refusal is a finding about it
            ck.disagree('graph.grid_specs', {'spec': label, 'specs': [list(x) for x in specs]}, [repr(e)[:300]], ['compiles'])
            continue
        ck.agree('graph.grid_specs')
        ck.stat('graph.grid.specs')
        kinds = {n['id']: n['kind'] for n in env.graph['nodes']}
        reqs, pending = [], []
        full_pkg = gen_package(env.api, root)
        if full_pkg[0] != 'error':
            fulls[label] = full_pkg
        for plan, wl in plan_grid(ck.rng, env, full):
            real = fast.run(wl)
            problems, info = judge_filter(env, wl, real)
            if problems or ck.rng.random() < 0.08:
                # a failure is judged on what specs_to_ir itself returns; so is a sample of the others (and the two
                # paths must retain the same items)
                slow = run_real(env, wl)
                if (real[0], slow[0]) == ('ok', 'ok'):
                    if retained(real[1]) == retained(slow[1]):
                        ck.agree('graph.grid.fastpath')
                    else:
                        ck.disagree('graph.grid.fastpath', {'spec': label, 'whitelist': wl, 'specs': env.specs},
                                    _brief([sorted(x) for x in retained(slow[1])]), _brief([sorted(x) for x in retained(real[1])]))
                real = slow
                problems, info = judge_filter(env, wl, real)
            ck.hist('graph.grid.plan', plan)
            ck.hist('graph.grid.family', label.split(':')[1].split('/')[0])
            if real[0] == 'ok' and info['wellformed']:
                t, a, r = info['retained']
                removed = (len(env.all_types) - len(t)) + (len(env.all_routes) - len(r))
                ck.case(('grid', label, json.dumps(wl, sort_keys=True)), nontrivial=removed > 0 and (len(t) + len(r)) > 0)
                ck.hist('graph.grid.outcome', 'ok')
                for _p, k in info['closure'].values():
                    ck.hist('graph.grid.closure_edge_kinds', k)
            else:
                ck.case(('grid', label, json.dumps(wl, sort_keys=True)), nontrivial=True)
                ck.hist('graph.grid.outcome', 'raises:' + type(real[1]).__name__ if real[0] == 'error' else 'ill-formed')
            for what, sig, detail in problems:
                ck.failing_input(what, sig, {'suite': 'graph.filter', 'spec': label, 'specs': env.specs, 'whitelist': wl,
                                             'detail': detail})
            reqs.append(filter_request(env, wl))
            pending.append((plan, wl, real, info, problems))
            if real[0] == 'ok' and info['wellformed'] and label in fulls and plan in ('single-route', 'random') and \
                    ck.rng.random() < import_p:
                g = gen_package(real[1], root)
                if g[0] == 'error':
                    ck.failing_input('python_types fails on the filtered Api while it handles the full Api',
                                     {'kind': 'generate-fails', 'exception': g[1]},
                                     {'suite': 'graph.filter', 'spec': label, 'specs': env.specs, 'whitelist': wl, 'detail': g[2]})
                else:
                    packages.append((g[0], g[1], label, env, wl, sorted({w for w, _h, _t in dangling_scan(real[1])})))
        slim = []
        for plan, wl, real, info, problems in pending:
            if real[0] == 'ok' and 'retained' not in info:
                info['retained'] = retained(real[1])
            slim.append((plan, wl, (real[0], None if real[0] == 'ok' else real[1]), info, problems))
        deferred.append((env, kinds, slim, reqs))
        if sum(len(d[3]) for d in deferred) >= 400:
            _flush(ck, deferred)
    _flush(ck, deferred)
    # imports: one fresh interpreter for the whole grid
    if fulls:
        res = import_batch(root, [(p[0], p[1]) for p in fulls.values()] + [(p, m) for p, m, _l, _e, _w, _d in packages])
        for pkg, _mods, label, env, wl, dang in packages:
            if res[fulls[label][0]] is not None:
                ck.stat('graph.import.full_api_not_importable')
                continue
            ck.stat('graph.import.cases')
            if res[pkg] is None:
                ck.stat('graph.import.ok')
                continue
            exc, text = res[pkg]
            ck.failing_input('the module generated from the filtered Api does not import (%s) while the one generated '
                             'from the full Api does' % exc, import_signature(exc, dang),
                             {'suite': 'graph.filter', 'spec': label, 'specs': env.specs, 'whitelist': wl,
                              'detail': {'exception': exc, 'message': text}})


# ----------------------------------------------------------------------------------------------
# the whitelist through the command line (stone.cli.main -r FILE), as users hand it in
# ----------------------------------------------------------------------------------------------

WL_BACKEND = '''from stone.backend import Backend
CAPTURED = []
class CaptureWl(Backend):
    preserve_aliases = True
    def generate(self, api):
        CAPTURED.append(api)
'''


def run_cli(root, files, wl_path, flag):
    """stone.cli.main in-process: ('ok', api the backend was handed) | ('exit', code | 'exception:<class>')"""
    import contextlib
    import io
    from stone import cli
    backend = os.path.join(root, 'capturewl.stoneg.py')
    if not os.path.exists(backend):
        with open(backend, 'w') as fh:
            fh.write(WL_BACKEND)
    old = sys.argv
    sys.argv = ['stone-verif', backend, os.path.join(root, 'out')] + files + [flag, wl_path]
    mod = sys.modules.get('capturewl_stoneg_py')
    if mod is not None:
        del mod.CAPTURED[:]
    try:
        with contextlib.redirect_stderr(io.StringIO()), contextlib.redirect_stdout(io.StringIO()):
            cli.main()
    except SystemExit as e:
        return ('exit', e.code)
    except Exception as e:      # noqa: BLE001 - an exception escaping main (an ill-formed whitelist is refused that way)
        return ('exit', 'exception:%s' % type(e).__name__)
    finally:
        sys.argv = old
    mod = sys.modules.get('capturewl_stoneg_py')
    if mod is None or not mod.CAPTURED:
        return ('exit', 'no-capture')
    return ('ok', mod.CAPTURED[-1])


def suite_cli_whitelist(ck, sources):
    """stone.cli.main in-process with `--route-whitelist-filter FILE` and a capturing backend that keeps aliases: the
    Api the backend is shown must be the one specs_to_ir(specs, route_whitelist_filter=...) returns, and it is judged
    by the same oracles. A few whitelists per hand-written spec (thorough: per generated spec too)."""
    from harness import core
    root = core.scratch('stone-verif-c20cli-')
    n = 0
    for label, specs in sources:
        if label.startswith('gen') and ck.tier != 'thorough':
            continue
        try:
            env = SpecEnv(label, specs)
        except Exception:      # noqa: BLE001 - counted by suite_filter
            continue
        n += 1
        d = os.path.join(root, 's%d' % n)
        os.makedirs(d, exist_ok=True)
        files = []
        for p, t in env.specs:
            files.append(os.path.join(d, os.path.basename(p)))
            with open(files[-1], 'w', encoding='utf-8') as fh:
                fh.write(t)
        plans = plan_whitelists(ck.rng, env, 8)
        picked, seen = [], set()
        for want in ('star-all', 'single-route', 'single-type', 'random', 'ill-formed'):
            for plan, wl in plans:
                if plan == want and plan not in seen:
                    seen.add(plan)
                    picked.append((plan, wl))
        for k, (plan, wl) in enumerate(picked):
            wl_path = os.path.join(d, 'wl%d.json' % k)
            with open(wl_path, 'w', encoding='utf-8') as fh:
                json.dump(wl, fh)
            flag = ('-r', '--route-whitelist-filter', '--route-whitelist')[k % 3]
            got = run_cli(d, files, wl_path, flag)
            real = run_real(env, wl)
            case = {'suite': 'graph.filter', 'via': 'stone.cli.main ' + flag, 'spec': label, 'specs': env.specs, 'whitelist': wl}
            ck.case(('cli-wl', label, json.dumps(wl, sort_keys=True)), nontrivial=True)
            ck.hist('graph.cli.plan', plan)
            if got[0] == 'ok' and real[0] == 'ok':
                a, b = retained(got[1]), retained(real[1])
                if a == b:
                    ck.agree('graph.cli')
                else:
                    ck.disagree('graph.cli', case, _brief([sorted(Reference.label(x) for x in s) for s in b]),
                                _brief([sorted(Reference.label(x) for x in s) for s in a]))
                problems, _info = judge_filter(env, wl, got)
                for what, sig, detail in problems:
                    ck.failing_input(what + ' (Api handed to the backend by stone.cli.main)', sig, dict(case, detail=detail))
            elif got[0] != 'ok' and real[0] != 'ok':
                want = 'exception:' + type(real[1]).__name__
                if got[1] == want:
                    ck.agree('graph.cli')
                else:
                    ck.disagree('graph.cli', case, want, list(got[:2]))
            else:
                ck.disagree('graph.cli', case, real[0] if real[0] == 'ok' else repr(real[1])[:200],
                            'ok' if got[0] == 'ok' else list(got[:2]))


# ----------------------------------------------------------------------------------------------
# suite graph.linearize / graph.allfields (serves C02)
# ----------------------------------------------------------------------------------------------

def _alias_mentions(t):
    """aliases written anywhere in a type expression (through List / Map / Nullable)"""
    Alias, List, Map, Nullable, Struct, Union = _ir()
    out, stack = [], [t]
    while stack:
        x = stack.pop()
        if isinstance(x, (Nullable, List)):
            stack.append(x.data_type)
        elif isinstance(x, Map):
            stack += [x.value_data_type, x.key_data_type]
        elif isinstance(x, Alias):
            out.append(x)
    return out


def _through(t, target):
    """constructor path from an alias target expression down to `target`"""
    Alias, List, Map, Nullable, Struct, Union = _ir()
    if t is target:
        return []
    if isinstance(t, Nullable):
        p = _through(t.data_type, target)
        return None if p is None else ['Nullable'] + p
    if isinstance(t, List):
        p = _through(t.data_type, target)
        return None if p is None else ['List'] + p
    if isinstance(t, Map):
        for sub in (t.key_data_type, t.value_data_type):
            p = _through(sub, target)
            if p is not None:
                return ['Map'] + p
    return None


def judge_linearize(ns, lin_types, lin_aliases):
    """direct oracle on the REAL output: [(what, signature, detail)]"""
    problems = []
    Alias, List, Map, Nullable, Struct, Union = _ir()
    pos = {id(d): i for i, d in enumerate(lin_types)}
    if sorted(map(id, lin_types)) != sorted(map(id, ns.data_types)):
        problems.append(('linearize_data_types is not a permutation of the data types of the namespace',
                         {'kind': 'linearize-types-not-permutation'}, {'ns': ns.name}))
    for d in lin_types:
        p = d.parent_type
        if p is not None and p.namespace is ns and not (id(p) in pos and pos[id(p)] < pos[id(d)]):
            problems.append(('a parent does not precede its child in linearize_data_types',
                             {'kind': 'parent-after-child'}, {'child': tid(d), 'parent': tid(p)}))
    apos = {id(a): i for i, a in enumerate(lin_aliases)}
    if sorted(map(id, lin_aliases)) != sorted(map(id, ns.aliases)):
        problems.append(('linearize_aliases is not a permutation of the aliases of the namespace',
                         {'kind': 'linearize-aliases-not-permutation'}, {'ns': ns.name}))
    for a in lin_aliases:
        for b in _alias_mentions(a.data_type):
            if b.namespace is ns and not (id(b) in apos and apos[id(b)] < apos[id(a)]):
                path = _through(a.data_type, b) or []
                problems.append(('alias %s is listed before the alias %s its target mentions%s' % (
                    a.name, b.name, (' inside ' + '/'.join(path)) if path else ''),
                    {'kind': 'alias-target-after-alias', 'through': path[0] if path else 'direct'},
                    {'alias': tid(a), 'target_alias': tid(b), 'through': path}))
    return problems


def judge_normalized(api):
    problems = []
    names = list(api.namespaces)
    if names != sorted(names):
        problems.append(('namespaces are not alphabetical', {'kind': 'unsorted', 'list': 'namespaces'}, {'got': names}))
    for ns in api.namespaces.values():
        for what, got in (('routes', [(r.name, r.version) for r in ns.routes]),
                          ('data_types', [d.name for d in ns.data_types]),
                          ('aliases', [a.name for a in ns.aliases]),
                          ('annotations', [a.name for a in ns.annotations]),
                          ('annotation_types', [a.name for a in ns.annotation_types])):
            if got != sorted(got):
                problems.append(('%s of a namespace are not alphabetical' % what, {'kind': 'unsorted', 'list': what},
                                 {'ns': ns.name, 'got': got}))
    return problems


def judge_all_fields(d):
    """documented order: inherited before own, required before optional (structs); parent's then own (unions)"""
    Alias, List, Map, Nullable, Struct, Union = _ir()
    problems = []
    chain = []
    c = d
    while c is not None:
        chain.append(c)
        c = c.parent_type
    chain.reverse()
    every = [f for c in chain for f in c.fields]
    got = list(d.all_fields)
    if isinstance(d, Struct):
        req = [f for f in every if not (isinstance(f.data_type, Nullable) or f.has_default)]
        opt = [f for f in every if (isinstance(f.data_type, Nullable) or f.has_default)]
        want = req + opt
        if list(d.all_required_fields) != req or list(d.all_optional_fields) != opt:
            problems.append(('all_required_fields / all_optional_fields differ from the documented listing',
                             {'kind': 'all-fields-order', 'list': 'required/optional'}, {'type': tid(d)}))
    else:
        want = every
    if [id(f) for f in got] != [id(f) for f in want]:
        problems.append(('all_fields is not inherited-first / required-first',
                         {'kind': 'all-fields-order', 'list': 'all_fields'},
                         {'type': tid(d), 'got': [f.name for f in got], 'want': [f.name for f in want]}))
    return problems


def _owned(d, fields):
    owner = {}
    c = d
    while c is not None:
        for f in c.fields:
            owner[id(f)] = tid(c)
        c = c.parent_type
    return [[owner.get(id(f), '?'), f.name] for f in fields]


def suite_linearize(ck, specs_list=None, judge=None):
    """Correspondence of linearize_data_types / linearize_aliases / normalize / all_fields with the model and the
    direct oracles of the ordering part of C02. `judge(what, signature, case)` receives oracle failures
    (default: count them, they belong to C02 / C09, not to the property of the caller)."""
    Alias, List, Map, Nullable, Struct, Union = _ir()
    if specs_list is None:
        specs_list = hand_specs() + generated_specs(ck, ck.scale(10, 90))
    if judge is None:
        def judge(what, sig, case):
            ck.stat('graph.linearize.oracle_failure.' + sig.get('kind', '?') +
                    ('.' + sig['through'] if 'through' in sig else ''))
    lin_reqs, lin_meta = [], []          # one driver call for all specs
    af_reqs, af_meta = [], []
    for label, specs in specs_list:
        try:
            api = compile_real([tuple(x) for x in specs])
        except Exception as e:
            ck.stat('graph.spec_rejected')
            continue
        case0 = {'suite': 'graph.linearize', 'spec': label, 'specs': [list(x) for x in specs]}
        for what, sig, detail in judge_normalized(api):
            judge(what, sig, dict(case0, detail=detail))
        for rnd in range(ck.scale(2, 4)):
            # round 0: the lists as `normalize` left them; later rounds: shuffled (the algorithms must not rely on it)
            if rnd:
                for ns in api.namespaces.values():
                    ck.rng.shuffle(ns.routes)
                    ck.rng.shuffle(ns.data_types)
                    ck.rng.shuffle(ns.aliases)
                    ck.rng.shuffle(ns.annotations)
                    ck.rng.shuffle(ns.annotation_types)
            g = dump_graph(api)
            real = {}
            for ns in api.namespaces.values():
                lt, la = ns.linearize_data_types(), ns.linearize_aliases()
                for what, sig, detail in judge_linearize(ns, lt, la):
                    judge(what, sig, dict(case0, detail=detail, order='sorted' if rnd == 0 else 'shuffled'))
                real[ns.name] = {'types': [tid(d) for d in lt], 'aliases': [tid(a) for a in la]}
                ck.case(('lin', label, rnd, ns.name), nontrivial=len(lt) + len(la) > 1)
                ck.hist('graph.linearize.parents_in_ns', sum(1 for d in lt if d.parent_type is not None and d.parent_type.namespace is ns))
            # the real normalize on the shuffled lists
            for ns in api.namespaces.values():
                ns.normalize()
                real[ns.name].update({'norm_routes': [rid(ns.name, r) for r in ns.routes],
                                      'norm_types': [tid(d) for d in ns.data_types],
                                      'norm_aliases': [tid(a) for a in ns.aliases],
                                      'norm_annotations': [a.name for a in ns.annotations],
                                      'norm_annotation_types': [a.name for a in ns.annotation_types]})
            for what, sig, detail in judge_normalized(api):
                judge(what, sig, dict(case0, detail=detail))
            lin_reqs.append({'op': 'graph.linearize', 'graph': g})
            lin_meta.append((label, g, real, sorted(api.namespaces)))
        # all_fields
        types = []
        for ns in api.namespaces.values():
            for d in ns.data_types:
                for what, sig, detail in judge_all_fields(d):
                    judge(what, sig, dict(case0, detail=detail))
                real = {'all': _owned(d, d.all_fields)}
                if isinstance(d, Struct):
                    real['required'] = _owned(d, d.all_required_fields)
                    real['optional'] = _owned(d, d.all_optional_fields)
                else:
                    real['required'], real['optional'] = [], []
                depth = 0
                c = d.parent_type
                while c is not None:
                    depth += 1
                    c = c.parent_type
                ck.case(('allfields', label, tid(d)), nontrivial=depth > 0)
                ck.hist('graph.allfields.inheritance_depth', depth)
                types.append((tid(d), real))
        af_reqs.append({'op': 'graph.allfields', 'graph': dump_graph(api)})
        af_meta.append((label, types))
    rep = drive(ck, lin_reqs + af_reqs) if lin_reqs or af_reqs else []
    for (label, g, real, ns_sorted), m in zip(lin_meta, rep[:len(lin_reqs)]):
        if 'protocol_error' in m:
            ck.disagree('graph.linearize', {'spec': label}, 'n/a', m)
            continue
        model = {}
        for n in m['namespaces']:
            # side conditions of the linearization theorems of Props/C02 (own list, link-closed, no repetition)
            if n.get('hyps_ok'):
                ck.agree('graph.linearize.theorem_hypotheses')
            else:
                ck.disagree('graph.linearize.theorem_hypotheses', {'spec': label, 'ns': n['name']},
                            'lists of a compiled Api', {'hyps_ok': False})
            model[n['name']] = {'types': n['types'].get('ok', n['types']), 'aliases': n['aliases'].get('ok', n['aliases']),
                                'norm_routes': n['norm_routes'], 'norm_types': n['norm_types'],
                                'norm_aliases': n['norm_aliases'], 'norm_annotations': n['norm_annotations'],
                                'norm_annotation_types': n['norm_annotation_types']}
        for nsn in real:
            for part in ('types', 'aliases'):
                if real[nsn][part] == model.get(nsn, {}).get(part):
                    ck.agree('graph.linearize')
                else:
                    ck.disagree('graph.linearize', {'spec': label, 'ns': nsn, 'part': part,
                                                    'input': [x for x in g['namespaces'] if x['name'] == nsn]},
                                real[nsn][part], model.get(nsn, {}).get(part))
            for part in ('norm_routes', 'norm_types', 'norm_aliases', 'norm_annotations', 'norm_annotation_types'):
                if real[nsn][part] == model.get(nsn, {}).get(part):
                    ck.agree('graph.normalize')
                else:
                    ck.disagree('graph.normalize', {'spec': label, 'ns': nsn, 'part': part}, real[nsn][part],
                                model.get(nsn, {}).get(part))
        if m['norm_namespaces'] == ns_sorted:
            ck.agree('graph.normalize')
        else:
            ck.disagree('graph.normalize', {'spec': label, 'part': 'namespaces'}, ns_sorted, m['norm_namespaces'])
    for (label, types), m in zip(af_meta, rep[len(lin_reqs):]):
        by_id = {t['id']: t for t in m.get('types', [])}
        for ident, real in types:
            mt = by_id.get(ident, {})
            model = {k: mt.get(k, {}).get('ok', mt.get(k)) for k in ('all', 'required', 'optional')}
            if real == model:
                ck.agree('graph.allfields')
            else:
                ck.disagree('graph.allfields', {'spec': label, 'type': ident}, real, model)


# ----------------------------------------------------------------------------------------------
# corpus + replay
# ----------------------------------------------------------------------------------------------

def run_case(ck, case):
    """evaluate one recorded case ({'suite': 'graph.filter', 'specs', 'whitelist'}) with all oracles"""
    from harness import core
    env = SpecEnv(case.get('spec', 'case'), case['specs'])
    wl = case['whitelist']
    real = run_real(env, wl)
    problems, info = judge_filter(env, wl, real)
    if real[0] == 'ok' and info['wellformed']:
        root = core.scratch('stone-verif-c20r-')
        full = gen_package(env.api, root)
        filt = gen_package(real[1], root)
        if full[0] != 'error':
            if filt[0] == 'error':
                problems.append(('python_types fails on the filtered Api while it handles the full Api',
                                 {'kind': 'generate-fails', 'exception': filt[1]}, {'message': filt[2]}))
            else:
                res = import_batch(root, [(full[0], full[1]), (filt[0], filt[1])])
                if res[full[0]] is None and res[filt[0]] is not None:
                    exc, text = res[filt[0]]
                    dang = sorted({w for w, _h, _t in dangling_scan(real[1])})
                    problems.append(('the module generated from the filtered Api does not import (%s) while the one '
                                     'generated from the full Api does' % exc,
                                     import_signature(exc, dang), {'exception': exc, 'message': text}))
    return env, real, problems, info


def run_corpus(ck):
    from harness import core
    d = os.path.join(core.VERIF, 'corpus', ck.prop)
    for path in sorted(glob.glob(os.path.join(d, '*.json'))):
        rec = json.load(open(path))
        case = rec.get('case', rec)
        if case.get('suite') != 'graph.filter':
            continue
        ck.stat('corpus.cases')
        _env, _real, problems, _info = run_case(ck, case)
        for what, sig, detail in problems:
            ck.failing_input(what, sig, dict(case, detail=detail))


def replay(ck, path):
    rec = json.load(open(path))
    case = rec.get('case') or {}
    print('replay of %s: %s' % (path, rec.get('what', rec.get('broken', ''))))
    if case.get('suite') != 'graph.filter':
        print(json.dumps(rec, indent=1)[:3000])
        print('(no single failing input recorded: re-run ./check %s to re-evaluate the broken obligation)' % ck.prop)
        return 1
    ck.build()
    for fn, text in case['specs']:
        print(' --- %s\n%s' % (fn, text.rstrip()))
    print(' whitelist       : %s' % json.dumps(case['whitelist']))
    env, real, problems, info = run_case(ck, case)
    if real[0] == 'ok':
        t, a, r = retained(real[1])
        print(' real retains    : types %s | routes %s | aliases %s' % (
            sorted(Reference.label(x) for x in t), sorted(Reference.label(x) for x in r), sorted(Reference.label(x) for x in a)))
    else:
        print(' real raises     : %r' % (real[1],))
    if info.get('closure') is not None:
        print(' reference closure: %s' % sorted(Reference.label(x) for x in info['closure']))
    m = drive(ck, [filter_request(env, case['whitelist'])])[0]
    print(' model           : %s' % _brief({'result': m.get('result'), 'hyps': m.get('hyps')}))
    for what, sig, detail in problems:
        print(' FAILS           : %s %s %s' % (what, json.dumps(sig, sort_keys=True), _brief(detail)))
    still = any(_sig_eq(sig, rec.get('signature')) for _w, sig, _d in problems)
    print('still failing' if still else 'no longer failing')
    return 1 if still else 0
