"""decl.js.* correspondence suites and direct oracles for the JavaScript / TypeScript generators (C16).

Layers, kept apart on purpose:

* REAL: `stone.backends.{js_client,js_types,tsd_client,tsd_types}` run in-process through `stone.compiler.Compiler`
  on generated specs, over the option sets of `option_sets()`; `fmt_type` / `fmt_type_name` of js_helpers and
  tsd_helpers called on random IR type objects; `node --check` and a node evaluation harness on js_client output.
* MODEL: the compiled Lean definitions of Model/DeclJs.lean behind `decl.js.run` (correspondence: scanned real
  output == model declarations, compared on canonical JSON).
* REFERENCE (direct oracle): a reading of the IR written in this file (`X*` functions: own naming functions, own type
  mapping, own expectation of declarations / calls) and *declaration scanners* for `.d.ts` and JSDoc text, reusing
  nothing of the backends. Only a reference disagreement on the real output is a failing input.

Not judged (unspecified by the property): comment text, indentation, order of declarations, the Error / UserMessage /
Timestamp header declarations beyond their presence, TypeScript reserved words used as names, declarations whose
generated name collides with another one (name injectivity is a hypothesis: counted in `hinj.*`), refusals of the
client backends with `RuntimeError: There is a name conflict` (same hypothesis), `--extra-arg`, `-i`, `-s`, `-p`.
"""
import json
import os
import re
import subprocess
import traceback

from harness import core, specgen, pygen

TEMPLATES = os.path.join(core.VERIF, 'harness', 'specs', 'templates')
T_TYPES = os.path.join(TEMPLATES, 'c16_types.d.ts.tmpl')
T_CLIENT = os.path.join(TEMPLATES, 'c16_client.d.ts.tmpl')
NODE_DRIVER = os.path.join(TEMPLATES, 'c16_js_client_driver.mjs')
NODE = '/usr/bin/node'

RULE = ('generated specs of every specgen preset, the grid family (every type shape: primitive, struct, subtype root '
        'and leaf, union, local / foreign alias incl. alias of alias, nullable, list, map x every position: field, '
        'defaulted field, variant, alias target, route argument / result / error, parent; same type and route names in '
        'two namespaces, an alias-only namespace) and the attribute family (route schemas of every JSON-printable '
        'attribute type x adversarial values x attribute order), the comment family (every doc site x references of every tag '
        'x terminator characters around them; no doc text outside comments), plus hand seeds under corpus/C16, x the option sets of the four '
        'backends (tsd_types: single file / file per namespace / --export-namespaces / --exclude_error_types; '
        'tsd_client: --import-namespaces, --wrap-response-in, --wrap-error-in, -a; js_client: --request-options, '
        'wrap options, -a, -c). Per spec: random IR types through the four type mappers; every output scanned '
        '(.d.ts tokenizer + JSDoc scanner) and compared with the model declarations and with the reference reading '
        'of the IR; js_client output imported in node with a recording request(), `node --check` on a sample. '
        'A case is non-trivial when the API has at least one user type or route.')

# ----------------------------------------------------------------------------------------------
# IR -> protocol JSON (own traversal)
# ----------------------------------------------------------------------------------------------

PRIMS = ('Boolean', 'Bytes', 'Float32', 'Float64', 'Int32', 'Int64', 'UInt32', 'UInt64', 'String', 'Timestamp',
         'Void')


def _ir():
    import stone.ir as ir
    return ir


def ty_json(t):
    ir = _ir()
    if isinstance(t, ir.Nullable):
        return ['nullable', ty_json(t.data_type)]
    if isinstance(t, ir.Alias):
        return ['alias', t.namespace.name, t.name, ty_json(t.data_type)]
    if isinstance(t, ir.List):
        return ['list', ty_json(t.data_type)]
    if isinstance(t, ir.Map):
        return ['map', ty_json(t.key_data_type), ty_json(t.value_data_type)]
    if isinstance(t, ir.Struct):
        return ['struct', t.namespace.name, t.name]
    if isinstance(t, ir.Union):
        return ['union', t.namespace.name, t.name]
    cn = type(t).__name__
    if cn in PRIMS:
        return ['prim', cn]
    raise TypeError('unhandled IR type %r' % (t,))


def val_json(v):
    if v is None:
        return ['null']
    if isinstance(v, bool):
        return ['bool', v]
    if isinstance(v, int):
        return ['int', str(v)]
    if isinstance(v, float):
        return ['float', repr(v)]
    if isinstance(v, str):
        return ['str', v]
    return ['unsupported', type(v).__name__]


def qn(dt):
    return [dt.namespace.name, dt.name]


def enumerated_of(st):
    subs = getattr(st, '_enumerated_subtypes', None)
    return list(subs) if subs else []


def api_json(api):
    ir = _ir()
    nss = []
    for ns in api.namespaces.values():
        types = []
        for dt in ns.data_types:
            parent = qn(dt.parent_type) if dt.parent_type is not None else None
            if isinstance(dt, ir.Struct):
                subs = enumerated_of(dt)
                types.append(['struct', ns.name, dt.name, parent,
                              [[f.name, ty_json(f.data_type), bool(f.has_default)] for f in dt.fields],
                              [[f.name, qn(f.data_type)] for f in subs],
                              bool(subs and dt._is_catch_all)])
            else:
                types.append(['union', ns.name, dt.name, parent,
                              [[f.name, ty_json(f.data_type)] for f in dt.fields]])
        routes = []
        schema = [f.name for f in api.route_schema.fields] if api.route_schema is not None else []
        for r in ns.routes:
            routes.append([r.name, r.version, ty_json(r.arg_data_type), ty_json(r.result_data_type),
                           ty_json(r.error_data_type),
                           [[k, val_json(v)] for k, v in (r.attrs or {}).items()]])
        nss.append({'name': ns.name, 'imports': [m.name for m in ns.get_imported_namespaces()],
                    'types': types, 'aliases': [[ns.name, a.name, ty_json(a.data_type)] for a in ns.aliases],
                    'routes': routes})
    return {'namespaces': nss,
            'schema': [f.name for f in api.route_schema.fields] if api.route_schema is not None else []}


# ----------------------------------------------------------------------------------------------
# REFERENCE: names (own scanner, written from the description of split_words in helpers.py)
# ----------------------------------------------------------------------------------------------

def _ld(c):
    return ('a' <= c <= 'z') or ('0' <= c <= '9')


def _up(c):
    return 'A' <= c <= 'Z'


def x_split_words(name):
    pieces, cur, in_sep = [], '', False
    for c in name:
        if c in '-_/':
            if not in_sep:
                pieces.append(cur)
                cur = ''
            in_sep = True
        else:
            cur += c
            in_sep = False
    pieces.append(cur)
    words = []
    for w in pieces:
        found, i, n = [], 0, len(w)
        while i < n:
            c = w[i]
            if i == 0 and _ld(c):
                j = i
                while j < n and _ld(w[j]):
                    j += 1
                found.append(w[i:j])
                i = j
            elif _up(c):
                j = i + 1
                while j < n and _ld(w[j]):
                    j += 1
                if j > i + 1:
                    found.append(w[i:j])
                    i = j
                    continue
                k = i
                while k < n and _up(w[k]):
                    k += 1
                if k == n:
                    found.append(w[i:k])
                    i = k
                elif k - i >= 2 and _ld(w[k]):
                    found.append(w[i:k - 1])
                    i = k - 1
                else:
                    i += 1
            else:
                i += 1
        words.extend(found if found else [w])
    return words


def _cap(w):
    return w[:1].upper() + w[1:].lower()


def x_camel(name):
    ws = x_split_words(name)
    return ws[0].lower() + ''.join(_cap(w) for w in ws[1:])


def x_pascal(name):
    return ''.join(_cap(w) for w in x_split_words(name))


def x_func(ns, route, version):
    base = x_camel(ns + '_' + route)
    return base if version == 1 else '%sV%d' % (base, version)


def x_url(ns, route, version):
    return '%s/%s' % (ns, route) if version == 1 else '%s/%s_v%d' % (ns, route, version)


# ----------------------------------------------------------------------------------------------
# REFERENCE: type mapping (canonical type expressions, the JSON of Driver/DeclJs.lean)
# ----------------------------------------------------------------------------------------------

X_PRIM = {'Boolean': 'boolean', 'Bytes': 'string', 'Float32': 'number', 'Float64': 'number', 'Int32': 'number',
          'Int64': 'number', 'UInt32': 'number', 'UInt64': 'number', 'String': 'string', 'Timestamp': 'Timestamp',
          'Void': 'void'}


def nm(name, ns=None):
    return ['name', ns, name]


def canon(t):
    """canonical form: a union with one alternative is that name"""
    if t is None:
        return None
    if t[0] == 'union' and len(t[1]) == 1:
        return ['name', t[1][0][0], t[1][0][1]]
    if t[0] == 'app':
        return ['app', t[1], canon(t[2])]
    if t[0] == 'dict':
        return ['dict', t[1], canon(t[2])]
    return t


def x_subtree(st):
    """every struct below `st` in its enumerated-subtypes tree, breadth first"""
    out, queue = [], [f.data_type for f in enumerated_of(st)]
    while queue:
        cur = queue.pop(0)
        out.append(cur)
        queue.extend(f.data_type for f in enumerated_of(cur))
    return out


def x_ts_ref(dt, inside):
    if inside is not None and dt.namespace.name == inside:
        return [None, dt.name]
    return [dt.namespace.name, dt.name]


def x_ts_type(t, inside, poly=True):
    ir = _ir()
    if isinstance(t, ir.Struct):
        if poly and enumerated_of(t):
            alts = [x_ts_ref(s, inside) for s in x_subtree(t)] + ([x_ts_ref(t, inside)] if t._is_catch_all else [])
            return canon(['union', [[a, b + 'Reference'] for a, b in alts]])
        return ['name'] + x_ts_ref(t, inside)
    if isinstance(t, (ir.Union, ir.Alias)):
        return ['name'] + x_ts_ref(t, inside)
    if isinstance(t, ir.List):
        return ['app', 'Array', x_ts_type(t.data_type, inside, True)]
    if isinstance(t, ir.Map):
        return ['dict', 'string', x_ts_type(t.value_data_type, inside, False)]
    if isinstance(t, ir.Nullable):
        return nm('Object')                      # a nullable below the top has no better TypeScript name here
    return nm(X_PRIM[type(t).__name__])


def x_js_name(dt):
    return x_pascal(dt.namespace.name + dt.name)


def x_js_type(t, poly=True):
    ir = _ir()
    if isinstance(t, ir.Struct):
        if poly and enumerated_of(t):
            alts = [x_js_name(s) for s in x_subtree(t)] + ([x_js_name(t)] if t._is_catch_all else [])
            return canon(['union', [[None, a] for a in alts]])
        return nm(x_js_name(t))
    if isinstance(t, ir.Union):
        return nm(x_js_name(t))
    if isinstance(t, ir.List):
        return ['app', 'Array', x_js_type(t.data_type)]
    if isinstance(t, (ir.Map, ir.Nullable, ir.Alias)):
        return nm('Object')                      # no JSDoc typedef exists for these (aliases are not declared)
    return nm(X_PRIM[type(t).__name__])


def x_strip(t):
    """(type without alias / nullable layers at the top, nullable seen)"""
    ir = _ir()
    nullable = False
    while isinstance(t, (ir.Alias, ir.Nullable)):
        if isinstance(t, ir.Nullable):
            nullable = True
        t = t.data_type
    return t, nullable


def render(t, lang):
    """text of a canonical type expression (for messages and the mapper correspondence)"""
    if t is None:
        return ''
    k = t[0]
    if k == 'name':
        return (t[1] + '.' if t[1] else '') + t[2]
    if k == 'app':
        return t[1] + ('.<' if lang == 'js' else '<') + render(t[2], lang) + '>'
    if k == 'dict':
        return '{[key: %s]: %s}' % (t[1], render(t[2], lang))
    if k == 'union':
        s = '|'.join((a + '.' if a else '') + b for a, b in t[1])
        return '(' + s + ')' if lang == 'js' and len(t[1]) > 1 else s
    if k == 'lits':
        return '|'.join("'%s'" % l for l in t[1])
    return repr(t)


# ----------------------------------------------------------------------------------------------
# declaration scanner: TypeScript (.d.ts)
# ----------------------------------------------------------------------------------------------

class ScanError(Exception):
    pass


_TS_ID = re.compile(r'[A-Za-z_$][A-Za-z0-9_$]*')
_TS_PUNCT = '{}()<>[]:;,.|=?*&'


def ts_tokens(text):
    """[(kind, value)] with kinds id / str / p; comments and blanks skipped"""
    toks, i, n = [], 0, len(text)
    while i < n:
        c = text[i]
        if c in ' \t\r\n':
            i += 1
        elif text.startswith('//', i):
            j = text.find('\n', i)
            i = n if j < 0 else j
        elif text.startswith('/*', i):
            j = text.find('*/', i + 2)
            if j < 0:
                raise ScanError('unterminated comment')
            i = j + 2
        elif c in '\'"':
            j = i + 1
            while j < n and text[j] != c:
                if text[j] == '\n':
                    raise ScanError('unterminated string literal')
                j += 2 if text[j] == '\\' else 1
            if j >= n:
                raise ScanError('unterminated string literal')
            toks.append(('str', text[i + 1:j]))
            i = j + 1
        elif c in _TS_PUNCT:
            toks.append(('p', c))
            i += 1
        else:
            m = _TS_ID.match(text, i)
            if not m:
                raise ScanError('unexpected character %r' % text[i:i + 12])
            toks.append(('id', m.group(0)))
            i = m.end()
    return toks


def _combine(alts):
    if len(alts) == 1:
        return alts[0]
    if all(a[0] == 'lits' for a in alts):
        return ['lits', [l for a in alts for l in a[1]]]
    if all(a[0] == 'name' for a in alts):
        return ['union', [[a[1], a[2]] for a in alts]]
    return ['alts', alts]


class _TsParser:
    def __init__(self, text, file):
        self.toks = ts_tokens(text)
        self.i = 0
        self.file = file
        self.decls, self.star_imports, self.named_imports, self.methods, self.problems = [], [], [], [], []
        self.classes = []

    def peek(self, k=0):
        j = self.i + k
        return self.toks[j] if j < len(self.toks) else ('eof', '')

    def next(self):
        t = self.peek()
        self.i += 1
        return t

    def at(self, v, kind='p'):
        return self.peek() == (kind, v)

    def expect(self, v, kind='p'):
        t = self.next()
        if t != (kind, v):
            raise ScanError('expected %r, found %r (token %d)' % (v, t[1], self.i - 1))

    def ident(self):
        t = self.next()
        if t[0] != 'id':
            raise ScanError('identifier expected, found %r (token %d)' % (t[1], self.i - 1))
        return t[1]

    # -- types
    def p_type(self):
        alts = [self.p_primary()]
        while self.at('|'):
            self.next()
            alts.append(self.p_primary())
        return _combine(alts)

    def p_primary(self):
        k, v = self.peek()
        if k == 'str':
            self.next()
            return ['lits', [v]]
        if (k, v) == ('p', '('):
            self.next()
            t = self.p_type()
            self.expect(')')
            return t
        if (k, v) == ('p', '{'):
            self.next()
            self.expect('[')
            self.ident()
            self.expect(':')
            key = self.p_type()
            self.expect(']')
            self.expect(':')
            val = self.p_type()
            self.expect('}')
            return ['dict', render(key, 'ts'), val]
        if k == 'id':
            parts = [self.ident()]
            while self.at('.'):
                self.next()
                parts.append(self.ident())
            if self.at('<'):
                self.next()
                args = [self.p_type()]
                while self.at(','):
                    self.next()
                    args.append(self.p_type())
                self.expect('>')
                head = '.'.join(parts)
                return ['app', head, args[0]] if len(args) == 1 else ['app2', head, args]
            return ['name', '.'.join(parts[:-1]) or None, parts[-1]]
        self.problems.append(('empty_type', 'no type before %r (token %d)' % (v, self.i)))
        return ['union', []]

    # -- statements
    def p_block(self, scope):
        while True:
            k, v = self.peek()
            if k == 'eof':
                if scope is not None:
                    raise ScanError('unexpected end of file inside %r' % scope)
                return
            if (k, v) == ('p', '}'):
                if scope is None:
                    raise ScanError('unbalanced }')
                self.next()
                return
            self.p_statement(scope)

    def p_statement(self, scope):
        exported = False
        while self.peek() in (('id', 'export'), ('id', 'declare')):
            if self.next()[1] == 'export':
                exported = True
        k, v = self.peek()
        if (k, v) == ('id', 'import'):
            self.next()
            if self.at('*'):
                self.next()
                self.expect('as', 'id')
                name = self.ident()
                self.expect('from', 'id')
                mod = self.next()
                self.expect(';')
                self.star_imports.append((name, mod[1]))
            else:
                self.expect('{')
                names = []
                while not self.at('}'):
                    names.append(self.ident())
                    if self.at(','):
                        self.next()
                self.expect('}')
                self.expect('from', 'id')
                mod = self.next()
                self.expect(';')
                self.named_imports.append((names, mod[1]))
        elif (k, v) in (('id', 'namespace'), ('id', 'module')):
            self.next()
            t = self.next()
            if t[0] not in ('id', 'str'):
                raise ScanError('namespace name expected')
            self.expect('{')
            self.p_block(t[1] if scope is None else scope + '.' + t[1])
        elif (k, v) == ('id', 'interface'):
            self.next()
            name = self.ident()
            tparams = []
            if self.at('<'):
                self.next()
                tparams.append(self.ident())
                while self.at(','):
                    self.next()
                    tparams.append(self.ident())
                self.expect('>')
            ext = []
            if self.at('extends', 'id'):
                self.next()
                while True:
                    t = self.p_primary()
                    if t[0] != 'name':
                        raise ScanError('name expected after extends')
                    ext.append([t[1], t[2]])
                    if not self.at(','):
                        break
                    self.next()
            self.expect('{')
            members = []
            while not self.at('}'):
                t = self.next()
                if t[0] not in ('id', 'str'):
                    raise ScanError('member name expected, found %r (token %d)' % (t[1], self.i - 1))
                optional = False
                if self.at('?'):
                    self.next()
                    optional = True
                self.expect(':')
                ty = self.p_type()
                self.expect(';')
                members.append([t[1], ty, optional])
            self.expect('}')
            self.decls.append({'file': self.file, 'scope': scope, 'kind': 'interface', 'name': name,
                               'tparams': tparams, 'ext': ext, 'members': members, 'rhs': None,
                               'exported': exported})
        elif (k, v) == ('id', 'type'):
            self.next()
            name = self.ident()
            self.expect('=')
            rhs = self.p_type()
            self.expect(';')
            self.decls.append({'file': self.file, 'scope': scope, 'kind': 'type', 'name': name, 'tparams': [],
                               'ext': [], 'members': [], 'rhs': rhs, 'exported': exported})
        elif (k, v) == ('id', 'class'):
            self.next()
            cname = self.ident()
            self.classes.append(cname)
            self.expect('{')
            while not self.at('}'):
                if self.at('public', 'id'):
                    self.next()
                mname = self.ident()
                self.expect('(')
                params = []
                while not self.at(')'):
                    pn = self.ident()
                    self.expect(':')
                    params.append([pn, self.p_type()])
                    if self.at(','):
                        self.next()
                self.expect(')')
                self.expect(':')
                ret = self.p_type()
                self.expect(';')
                self.methods.append({'name': mname, 'params': params, 'ret': ret})
            self.expect('}')
        else:
            raise ScanError('unexpected %r at statement level (token %d)' % (v, self.i))


def scan_ts(text, file):
    """{'decls', 'star_imports', 'named_imports', 'methods', 'problems'}; a text that cannot be scanned gives a
    ('malformed', message) problem and whatever was recognised before"""
    try:
        p = _TsParser(text, file)
    except ScanError as e:
        return {'decls': [], 'star_imports': [], 'named_imports': [], 'methods': [],
                'problems': [('malformed', str(e))]}
    try:
        p.p_block(None)
    except ScanError as e:
        p.problems.append(('malformed', str(e)))
    return {'decls': p.decls, 'star_imports': p.star_imports, 'named_imports': p.named_imports,
            'methods': p.methods, 'problems': p.problems}


def ts_error_type_of_comment(text, method):
    """the type named in `... rejects the promise with type X.` of the doc comment in front of `public method(`"""
    m = re.search(r'/\*\*((?:(?!\*/).)*?)\*/\s*public %s\(' % re.escape(method), text, re.S)
    if not m:
        return None
    body = ' '.join(l.strip().lstrip('*').strip() for l in m.group(1).splitlines())
    mm = re.search(r'rejects the promise with type (.*?)\.(?: @|$)', body.strip())
    if not mm:
        return None
    try:
        p = _TsParser(mm.group(1), '')
        return p.p_type()
    except ScanError:
        return None


# ----------------------------------------------------------------------------------------------
# declaration scanner: JSDoc
# ----------------------------------------------------------------------------------------------

_JS_TAGS = ('@typedef', '@property', '@template', '@arg', '@param', '@returns', '@function', '@deprecated')


def js_type_tokens(s):
    toks, i, n = [], 0, len(s)
    while i < n:
        c = s[i]
        if c in ' \t':
            i += 1
        elif c in '\'"':
            j = s.find(c, i + 1)
            if j < 0:
                raise ScanError('unterminated literal in %r' % s)
            toks.append(('str', s[i + 1:j]))
            i = j + 1
        elif s.startswith('.<', i):
            toks.append(('p', '<'))
            i += 2
        elif c in '()|,<>':
            toks.append(('p', c))
            i += 1
        else:
            m = re.compile(r'[A-Za-z_$*][A-Za-z0-9_$]*').match(s, i)
            if not m:
                raise ScanError('unexpected %r in JSDoc type %r' % (c, s))
            toks.append(('id', m.group(0)))
            i = m.end()
    return toks


def parse_js_type(s):
    toks = js_type_tokens(s)
    pos = [0]

    def peek():
        return toks[pos[0]] if pos[0] < len(toks) else ('eof', '')

    def nxt():
        t = peek()
        pos[0] += 1
        return t

    def p_type():
        alts = [p_primary()]
        while peek() == ('p', '|'):
            nxt()
            alts.append(p_primary())
        return _combine(alts)

    def p_primary():
        k, v = nxt()
        if k == 'str':
            return ['lits', [v]]
        if (k, v) == ('p', '('):
            t = p_type()
            if nxt() != ('p', ')'):
                raise ScanError('missing ) in %r' % s)
            return t
        if k == 'id':
            if peek() == ('p', '<'):
                nxt()
                args = [p_type()]
                while peek() == ('p', ','):
                    nxt()
                    args.append(p_type())
                if nxt() != ('p', '>'):
                    raise ScanError('missing > in %r' % s)
                return ['app', v, args[0]] if len(args) == 1 else ['app2', v, args]
            return ['name', None, v]
        raise ScanError('type expected in %r' % s)

    t = p_type()
    if peek()[0] != 'eof':
        raise ScanError('trailing text in JSDoc type %r' % s)
    return t


def jsdoc_blocks(text):
    """[(start, end, [sections])]: every `/** .. */` block with its tag sections (continuation lines joined)"""
    out = []
    for m in re.finditer(r'/\*\*(.*?)\*/', text, re.S):
        sections = []
        for line in m.group(1).splitlines():
            l = line.strip()
            if l.startswith('*'):
                l = l[1:].strip()
            if any(l == t or l.startswith(t + ' ') for t in _JS_TAGS):
                sections.append(l)
            elif sections:
                sections[-1] += ' ' + l
        out.append((m.start(), m.end(), sections))
    return out


def _braced(s):
    """('{T} rest') -> (T, rest) with brace matching"""
    s = s.lstrip()
    if not s.startswith('{'):
        raise ScanError('{type} expected in %r' % s[:40])
    depth = 0
    for i, c in enumerate(s):
        if c == '{':
            depth += 1
        elif c == '}':
            depth -= 1
            if depth == 0:
                return s[1:i], s[i + 1:].strip()
    raise ScanError('unbalanced { in %r' % s[:40])


def scan_jsdoc_types(text, file):
    """typedef declarations of a js_types output"""
    decls, problems = [], []
    for _s, _e, sections in jsdoc_blocks(text):
        cur = None
        for sec in sections:
            tag, _, rest = sec.partition(' ')
            try:
                if tag == '@typedef':
                    ty, rest2 = _braced(rest)
                    name = rest2.split()[0] if rest2.split() else ''
                    cur = {'file': file, 'scope': None, 'kind': 'typedef', 'name': name, 'tparams': [], 'ext': [],
                           'members': [], 'rhs': parse_js_type(ty)}
                    decls.append(cur)
                elif tag == '@property' and cur is not None:
                    ty, rest2 = _braced(rest)
                    word = rest2.split()[0] if rest2.split() else ''
                    optional = word.startswith('[') and word.endswith(']')
                    cur['members'].append([word[1:-1] if optional else word, parse_js_type(ty), optional])
                elif tag == '@template' and cur is not None:
                    cur['tparams'].extend(rest.split())
            except ScanError as e:
                problems.append(('malformed', str(e)))
    return {'decls': decls, 'problems': problems}


_JS_FN = re.compile(r'routes\.([A-Za-z_$][A-Za-z0-9_$]*) = function \(([^)]*)\) \{')


def scan_js_client(text):
    """[{'name', 'params', 'arg', 'returns'}] for every `routes.X = function (...)` with the JSDoc types of the
    comment in front of it"""
    blocks = jsdoc_blocks(text)
    fns, problems = [], []
    for m in _JS_FN.finditer(text):
        doc = None
        for s, e, sections in blocks:
            if e <= m.start() and text[e:m.start()].strip() == '':
                doc = sections
        rec = {'name': m.group(1), 'params': [p.strip() for p in m.group(2).split(',') if p.strip()],
               'arg': None, 'returns': None, 'doc': doc is not None}
        for sec in doc or []:
            tag, _, rest = sec.partition(' ')
            try:
                if tag == '@arg':
                    ty, rest2 = _braced(rest)
                    if rest2.split()[:1] == ['arg']:
                        rec['arg'] = parse_js_type(ty)
                elif tag == '@returns':
                    ty, _r = _braced(rest)
                    rec['returns'] = parse_js_type(ty)
            except ScanError as e:
                problems.append(('malformed', str(e)))
        fns.append(rec)
    return {'fns': fns, 'problems': problems}


# ----------------------------------------------------------------------------------------------
# running the real backends
# ----------------------------------------------------------------------------------------------

WRAP_R, WRAP_E = 'StoneResponse', 'StoneError'


def option_sets(api, rng, full=True):
    """[(backend, label, argv, model opts)] -- the option space of the property. The two wrap options occur alone
    (`options` / `import`: error only, `wrap`: response only) and together (`all`), so that reading one for the other shows"""
    schema = [f.name for f in api.route_schema.fields] if api.route_schema is not None else []
    acs = []
    for a in (rng.sample(schema, min(2, len(schema))) + ['nosuch_attr']):
        acs += ['-a', a]
    sets = [
        ('js_types', 'plain', ['types.js'], {'out': 'types.js'}),
        ('js_client', 'plain', ['client.mjs'], {'out': 'client.mjs'}),
        ('js_client', 'options', ['client.mjs', '--request-options', '--wrap-error-in', WRAP_E],
         {'out': 'client.mjs', 'request_options': True, 'wrap_error': WRAP_E}),
        ('js_client', 'all', ['client.mjs', '--request-options', '--wrap-response-in', WRAP_R, '--wrap-error-in',
                              WRAP_E, '-c', 'StoneBase'] + acs,
         {'out': 'client.mjs', 'request_options': True, 'wrap_response': WRAP_R, 'wrap_error': WRAP_E}),
        ('tsd_types', 'single', [T_TYPES, 'types.d.ts'], {'filename': 'types.d.ts'}),
        ('tsd_types', 'single_export', [T_TYPES, 'types.d.ts', '--export-namespaces'],
         {'filename': 'types.d.ts', 'export': True}),
        ('tsd_types', 'split', [T_TYPES], {'filename': None}),
        ('tsd_client', 'plain', [T_CLIENT, 'client.d.ts'], {'out': 'client.d.ts'}),
        ('tsd_client', 'import', [T_CLIENT, 'client.d.ts', '--import-namespaces', '--types-file', './types',
                                  '--wrap-error-in', WRAP_E], {'out': 'client.d.ts', 'import_ns': True, 'wrap_error': WRAP_E}),
    ]
    if full:
        sets += [
            ('js_client', 'wrap', ['client.mjs', '--wrap-response-in', WRAP_R],
             {'out': 'client.mjs', 'wrap_response': WRAP_R}),
            ('js_client', 'attrs', ['client.mjs'] + acs, {'out': 'client.mjs'}),
            ('tsd_types', 'single_noerr', [T_TYPES, 'types.d.ts', '--exclude_error_types'],
             {'filename': 'types.d.ts', 'exclude_error': True}),
            ('tsd_types', 'split_noerr', [T_TYPES, '--exclude_error_types'], {'filename': None, 'exclude_error': True}),
            ('tsd_client', 'wrap', [T_CLIENT, 'client.d.ts', '--wrap-response-in', WRAP_R],
             {'out': 'client.d.ts', 'wrap_response': WRAP_R}),
            ('tsd_client', 'all', [T_CLIENT, 'client.d.ts', '--import-namespaces', '--types-file', './types',
                                   '--wrap-response-in', WRAP_R, '--wrap-error-in', WRAP_E] + acs,
             {'out': 'client.d.ts', 'import_ns': True, 'wrap_response': WRAP_R, 'wrap_error': WRAP_E}),
        ]
    return sets


def run_backend(api, backend, argv, out):
    """('ok', {relative file: text}) | ('crash', {'exc', 'site', 'message'})"""
    try:
        pygen.generate(api, backend, argv, out)
    except BaseException as e:                                   # noqa: BLE001 - SystemExit of the backends too
        tb = getattr(e, 'traceback', None) or traceback.format_exc()
        lines = [l for l in str(tb).strip().splitlines() if l.strip()]
        last = lines[-1] if lines else repr(e)
        exc = last.split(':', 1)[0].strip().split('.')[-1]
        site = ''
        for l in lines:
            m = re.match(r'\s*File ".*?stone/backends/([a-z_]+)\.py", line \d+, in (\w+)', l)
            if m:
                site = '%s.%s' % (m.group(1), m.group(2))
        return 'crash', {'exc': exc, 'site': site, 'message': last[:200]}
    files = {}
    for root, _d, fns in os.walk(out):
        for fn in fns:
            p = os.path.join(root, fn)
            files[os.path.relpath(p, out)] = open(p, encoding='utf-8').read()
    return 'ok', files


def node_eval(paths):
    """one node process imports every js_client module and records the request() calls"""
    if not paths:
        return {}
    p = subprocess.run([NODE, NODE_DRIVER] + paths, capture_output=True, text=True, timeout=300)
    if p.returncode != 0:
        raise RuntimeError('node driver failed: %s' % p.stderr[-800:])
    return {r['file']: r for r in json.loads(p.stdout)}


def node_check(path):
    p = subprocess.run([NODE, '--check', path], capture_output=True, text=True, timeout=60)
    return p.returncode == 0, (p.stderr or '')[-400:]


# ----------------------------------------------------------------------------------------------
# canonical forms shared by the correspondence and the oracle
# ----------------------------------------------------------------------------------------------

def canon_decl(d):
    return {'file': d['file'], 'scope': d['scope'], 'kind': d['kind'], 'name': d['name'],
            'tparams': list(d['tparams']), 'ext': [list(r) for r in d['ext']],
            'members': [[m[0], canon(m[1]), bool(m[2])] for m in d['members']], 'rhs': canon(d['rhs'])}


def sort_decls(ds):
    return sorted((canon_decl(d) for d in ds), key=lambda d: json.dumps(d, sort_keys=True))


def names_in(t):
    """[(ns, name)] of every identifier in type position"""
    if t is None:
        return []
    k = t[0]
    if k == 'name':
        return [(t[1], t[2])]
    if k == 'app':
        return [(None, t[1])] + names_in(t[2])
    if k == 'app2':
        return [(None, t[1])] + [x for a in t[2] for x in names_in(a)]
    if k == 'dict':
        return [(None, t[1])] + names_in(t[2])
    if k == 'union':
        return [(a, b) for a, b in t[1]]
    if k == 'alts':
        return [x for a in t[1] for x in names_in(a)]
    return []


def decl_refs(d):
    out = [(a, b) for a, b in d['ext']]
    for m in d['members']:
        out += names_in(m[1])
    out += names_in(d['rhs'])
    return out


TS_BUILTINS = {'boolean', 'string', 'number', 'Object', 'Array', 'void', 'null', 'undefined', 'Promise', 'Date', 'any',
               'never', 'unknown', 'object', 'Error'}
JS_BUILTINS = {'boolean', 'string', 'number', 'Object', 'Array', 'void', 'null', 'undefined', 'Promise', 'Date',
               'Function', '*'}


def py_of_val(v):
    k = v[0]
    if k == 'null':
        return None
    if k == 'bool':
        return bool(v[1])
    if k == 'int':
        return int(v[1])
    if k == 'float':
        return float(v[1])
    if k == 'str':
        return v[1]
    return ('unsupported', v[1])


def same_value(real, want):
    """a value recorded in node (through JSON) against a Python attribute value; numbers compare as doubles"""
    if isinstance(want, bool) or isinstance(real, bool):
        return isinstance(want, bool) and isinstance(real, bool) and real == want
    if isinstance(want, (int, float)) and isinstance(real, (int, float)):
        try:
            return float(real) == float(want)
        except OverflowError:
            return False
    return type(real) is type(want) and real == want


def canon_call(args):
    """recorded request() arguments -> ['url', 'arg' | 'null', ('attr', value).., 'options'?]"""
    out = []
    for i, a in enumerate(args):
        if isinstance(a, dict) and set(a) == {'$m'}:
            out.append(a['$m'])
        elif i == 1 and a is None:
            out.append('null')
        elif i == 0:
            out.append(a)
        else:
            out.append(('attr', a))
    return out


# ----------------------------------------------------------------------------------------------
# DIRECT ORACLE: the property evaluated on the scanned output against the reference reading of the IR
# ----------------------------------------------------------------------------------------------

def _dups(names):
    seen, dup = set(), set()
    for n in names:
        (dup if n in seen else seen).add(n)
    return dup


def x_in_tree(st):
    return bool(enumerated_of(st)) or (st.parent_type is not None and bool(enumerated_of(st.parent_type)))


def x_chain(dt):
    out = []
    while dt is not None:
        out.insert(0, dt)
        dt = dt.parent_type
    return out


def x_tags(st):
    """the `.tag` values of a struct of an enumerated-subtypes tree: a root carries the tags of every struct below it,
    a subtype the tag its parent lists it under"""
    if enumerated_of(st):
        out, queue = [], list(enumerated_of(st))
        while queue:
            f = queue.pop(0)
            out.append(f.name)
            queue.extend(enumerated_of(f.data_type))
        return sorted(out)
    return sorted(f.name for f in enumerated_of(st.parent_type) if f.data_type is st)


def cell_of(t, here):
    """'wrapper:core' of a type reference seen from namespace `here` (^ = defined in another namespace)"""
    ir = _ir()
    wrapper = None
    while True:
        if isinstance(t, ir.Nullable):
            w, nxt = 'null', t.data_type
        elif isinstance(t, ir.List):
            w, nxt = 'list', t.data_type
        elif isinstance(t, ir.Map):
            w, nxt = 'map', t.value_data_type
        elif isinstance(t, ir.Alias):
            w, nxt = ('alias' if t.namespace.name == here else '^alias'), t.data_type
        else:
            break
        wrapper = wrapper or w
        t = nxt
    far = '' if not hasattr(t, 'namespace') or t.namespace.name == here else '^'
    if isinstance(t, ir.Struct):
        core = ('root' if enumerated_of(t) else 'leaf' if x_in_tree(t) else 'struct')
    elif isinstance(t, ir.Union):
        core = 'union'
    else:
        core = type(t).__name__ if type(t).__name__ in ('Timestamp', 'Void', 'Bytes') else 'prim'
    return '%s:%s%s' % (wrapper or 'plain', far, core)


def cells_of(api):
    """{'position:wrapper:core'} -- which type shapes occur in which positions of this API"""
    ir, out = _ir(), set()
    for ns in api.namespaces.values():
        for dt in ns.data_types:
            struct = isinstance(dt, ir.Struct)
            if dt.parent_type is not None:
                out.add('extends_%s:%s' % ('struct' if struct else 'union', cell_of(dt.parent_type, ns.name)))
            for f in dt.fields:
                pos = ('field_default' if f.has_default else 'field') if struct else 'variant'
                out.add('%s:%s' % (pos, cell_of(f.data_type, ns.name)))
        for a in ns.aliases:
            out.add('alias:%s' % cell_of(a.data_type, ns.name))
        for r in ns.routes:
            for pos, t in (('arg', r.arg_data_type), ('result', r.result_data_type), ('error', r.error_data_type)):
                out.add('route_%s:%s' % (pos, cell_of(t, ns.name)))
    return out


def docs_close_comment(api):
    """some doc string or attribute value of the spec contains `*/` (ends the generated comment early)"""
    def bad(s):
        return isinstance(s, str) and '*/' in s
    for ns in api.namespaces.values():
        if bad(ns.doc):
            return True
        for dt in list(ns.data_types) + list(ns.aliases):
            if bad(getattr(dt, 'doc', None)):
                return True
            for f in getattr(dt, 'fields', []) or []:
                if bad(f.doc):
                    return True
        for r in ns.routes:
            if bad(r.doc) or any(bad(v) for v in (r.attrs or {}).values()):
                return True
    return False


def attr_comment_has_newline(api, argv):
    """some route attribute named by a `-a` option has a value whose text contains a line break"""
    names = [argv[i + 1] for i, a in enumerate(argv[:-1]) if a == '-a']
    return any('\n' in str(r.attrs[n]) for ns in api.namespaces.values() for r in ns.routes for n in names
               if (r.attrs or {}).get(n) is not None)


def py_repr_misread_by_js(s):
    """what a JavaScript engine reads from Python's repr() of `s`: repr() writes non-printable characters outside the
    BMP as `\\UXXXXXXXX`, which JavaScript takes for the letter U followed by eight digits"""
    return ''.join('U%08x' % ord(c) if ord(c) > 0xFFFF and not c.isprintable() else c for c in s)


def defaults_close_comment(api):
    """some String default contains `*/`: tsd_types echoes it into the doc comment `Defaults to ...`"""
    return any(getattr(f, 'has_default', False) and isinstance(f.default, str) and '*/' in f.default
               for ns in api.namespaces.values() for dt in ns.data_types for f in getattr(dt, 'fields', []) or [])


class Judge:
    def __init__(self, api, ck=None):
        self.api = api
        self.ck = ck
        self.problems = []          # (what, signature, detail)
        self.ir = _ir()
        self.inject_cause = 'doc_closes_comment' if docs_close_comment(api) else \
            'default_closes_comment' if defaults_close_comment(api) else None
        self.injected = self.inject_cause is not None
        self.unmodelled = None      # set by a judgement whose cause lies in a text layer the Lean model does not have

    def P(self, what, sig, **detail):
        if self.injected and sig.get('kind') in ('malformed_output', 'js_syntax') and \
                (self.inject_cause == 'doc_closes_comment' or sig.get('backend') == 'tsd_types'):
            sig = dict(sig, cause=self.inject_cause)
        self.problems.append((what, sig, detail))

    def stat(self, key, n=1):
        if self.ck is not None:
            self.ck.stat(key, n)

    # ---- tsd_types ------------------------------------------------------------------------------------------
    def tsd_types(self, label, opts, files):
        ir, api = self.ir, self.api
        split = opts.get('filename') is None
        scans = {fn: scan_ts(text, fn) for fn, text in files.items()}
        for fn, sc in scans.items():
            for kind, msg in sc['problems']:
                if kind == 'malformed':
                    self.P('tsd_types output %s cannot be scanned: %s' % (fn, msg),
                           {'kind': 'malformed_output', 'backend': 'tsd_types'}, file=fn, message=msg)
        if self.injected and any(k == 'malformed' for sc in scans.values() for k, _m in sc['problems']):
            # a `*/` of the spec ended a comment early and the scanner stopped there: what it did not reach is not
            # missing from the output, so nothing beyond the malformed text is judged
            self.stat('not_judged.after_closed_comment')
            return scans
        decls = [d for sc in scans.values() for d in sc['decls']]
        by = {}
        for d in decls:
            by.setdefault((d['scope'], d['name']), []).append(d)
        for ns in api.namespaces.values():
            if not (ns.data_types or ns.aliases):
                continue
            file = (ns.name + '.d.ts') if split else opts['filename']
            gen = []
            for dt in ns.data_types:
                gen.append(dt.name)
                if isinstance(dt, ir.Struct):
                    if x_in_tree(dt):
                        gen.append(dt.name + 'Reference')
                else:
                    gen += [dt.name + x_pascal(f.name) for f in dt.fields]
            gen += [a.name for a in ns.aliases] + (['Timestamp'] if split else [])
            clash = _dups(gen)
            if clash:
                self.stat('hinj.tsd_types.namespaces_with_clash')

            def one(dt, kind_word):
                found = by.get((ns.name, dt.name), [])
                if dt.name in clash:
                    self.stat('hinj.tsd_types.skipped')
                    return None
                if len(found) != 1:
                    self.P('tsd_types[%s] declares %s %s.%s %d times' % (label, kind_word, ns.name, dt.name, len(found)),
                           {'kind': 'missing_declaration' if not found else 'duplicate_declaration',
                            'backend': 'tsd_types', 'type_kind': kind_word}, type='%s.%s' % (ns.name, dt.name))
                    return None
                if found[0]['file'] != file:
                    self.P('tsd_types[%s] declares %s.%s in %s, expected %s' % (label, ns.name, dt.name,
                                                                               found[0]['file'], file),
                           {'kind': 'wrong_file', 'backend': 'tsd_types'}, type='%s.%s' % (ns.name, dt.name))
                return found[0]

            for dt in ns.data_types:
                if isinstance(dt, ir.Struct):
                    d = one(dt, 'struct')
                    if d is None:
                        continue
                    want_ext = [x_ts_ref(dt.parent_type, ns.name)] if dt.parent_type is not None else []
                    if d['kind'] != 'interface' or [list(e) for e in d['ext']] != want_ext:
                        self.P('tsd_types[%s] struct %s.%s: kind %s extends %s, expected interface extends %s' % (
                            label, ns.name, dt.name, d['kind'], d['ext'], want_ext),
                            {'kind': 'struct_head', 'backend': 'tsd_types'}, type='%s.%s' % (ns.name, dt.name))
                    mem = {}
                    for m in d['members']:
                        mem.setdefault(m[0], []).append(m)
                    for f in dt.fields:
                        t, top_null = (f.data_type.data_type, True) if isinstance(f.data_type, ir.Nullable) \
                            else (f.data_type, False)
                        want_t = canon(x_ts_type(t, ns.name, True))
                        want_opt = bool(x_strip(f.data_type)[1] or f.has_default)
                        got = mem.get(f.name, [])
                        where = 'tsd_types[%s] field %s.%s.%s' % (label, ns.name, dt.name, f.name)
                        if len(got) != 1:
                            self.P('%s declared %d times' % (where, len(got)),
                                   {'kind': 'missing_member' if not got else 'duplicate_member',
                                    'backend': 'tsd_types', 'type_kind': 'struct'}, field=f.name)
                            continue
                        if canon(got[0][1]) != want_t:
                            self.P('%s has type %s, mapped type is %s' % (where, render(canon(got[0][1]), 'ts'),
                                                                         render(want_t, 'ts')),
                                   {'kind': 'member_type', 'backend': 'tsd_types', 'type_kind': 'struct',
                                    'ir': type(t).__name__}, field=f.name)
                        if bool(got[0][2]) != want_opt:
                            via = 'alias_to_nullable' if (want_opt and not top_null and not f.has_default) else 'direct'
                            self.P('%s optional=%s but nullable=%s default=%s' % (
                                where, got[0][2], x_strip(f.data_type)[1], f.has_default),
                                {'kind': 'optional_mismatch', 'backend': 'tsd_types', 'via': via}, field=f.name)
                    if x_in_tree(dt):
                        # the polymorphic reference type `<Name>Reference`: declared once, extends the struct, and its
                        # '.tag' member lists exactly the tags of the struct
                        rname = dt.name + 'Reference'
                        refs = by.get((ns.name, rname), [])
                        where = 'tsd_types[%s] %s.%s' % (label, ns.name, rname)
                        if rname in clash:
                            self.stat('hinj.tsd_types.skipped')
                        elif len(refs) != 1:
                            self.P('%s is declared %d times' % (where, len(refs)),
                                   {'kind': 'missing_declaration' if not refs else 'duplicate_declaration',
                                    'backend': 'tsd_types', 'type_kind': 'struct_reference'},
                                   type='%s.%s' % (ns.name, dt.name))
                        else:
                            tagm = [canon(m[1]) for m in refs[0]['members'] if m[0] == '.tag']
                            lits = sorted(tagm[0][1]) if len(tagm) == 1 and tagm[0][0] == 'lits' else None
                            if refs[0]['kind'] != 'interface' or [list(e) for e in refs[0]['ext']] != [[None, dt.name]] \
                                    or lits != x_tags(dt):
                                self.P("%s: extends %s with '.tag' %s, expected extends %s with the tags %s" % (
                                    where, refs[0]['ext'], tagm, dt.name, x_tags(dt)),
                                    {'kind': 'member_type', 'backend': 'tsd_types', 'type_kind': 'struct_reference'},
                                    type='%s.%s' % (ns.name, dt.name))
                else:
                    d = one(dt, 'union')
                    if d is None:
                        continue
                    alts = []
                    if d['kind'] == 'type' and d['rhs'] is not None:
                        r = canon(d['rhs'])
                        alts = [[r[1], r[2]]] if r[0] == 'name' else ([list(a) for a in r[1]] if r[0] == 'union' else [])
                    where = 'tsd_types[%s] union %s.%s' % (label, ns.name, dt.name)
                    if d['kind'] != 'type':
                        self.P('%s is declared as %s' % (where, d['kind']), {'kind': 'union_head', 'backend': 'tsd_types'})
                        continue
                    if not dt.fields and dt.parent_type is None:
                        # a union without tags (and without a parent) has no values: `never`, not `type E = ;`
                        if alts != [[None, 'never']]:
                            self.P('%s has no tags and is declared as `%s` instead of `never`' % (
                                where, render(canon(d['rhs']), 'ts')),
                                {'kind': 'empty_declaration', 'backend': 'tsd_types', 'what': 'union_without_tags'},
                                type='%s.%s' % (ns.name, dt.name))
                        continue
                    if not alts:
                        self.P('%s is declared without alternatives (`type %s = ;`)' % (where, dt.name),
                               {'kind': 'empty_declaration', 'backend': 'tsd_types', 'what': 'union_without_alternatives'},
                               type='%s.%s' % (ns.name, dt.name))
                        continue
                    if dt.parent_type is not None and x_ts_ref(dt.parent_type, ns.name) not in alts:
                        self.P('%s does not include its parent %s' % (where, dt.parent_type.name),
                               {'kind': 'missing_member', 'backend': 'tsd_types', 'type_kind': 'union_parent'})
                    for f in dt.fields:
                        vname = dt.name + x_pascal(f.name)
                        if vname in clash:
                            self.stat('hinj.tsd_types.skipped')
                            continue
                        cands = [v for a in alts if a[0] is None for v in by.get((ns.name, a[1]), [])
                                 if any(m[0] == '.tag' and canon(m[1]) == ['lits', [f.name]] for m in v['members'])]
                        if len(cands) != 1:
                            self.P('%s: tag %s has %d variant declarations among the alternatives' % (
                                where, f.name, len(cands)),
                                {'kind': 'missing_member' if not cands else 'duplicate_member', 'backend': 'tsd_types',
                                 'type_kind': 'union'}, tag=f.name)
                            continue
                        v = cands[0]
                        t = f.data_type
                        if isinstance(t, ir.Void):
                            ok = not [m for m in v['members'] if m[0] == f.name]
                            want_txt = '(no value)'
                        elif isinstance(t, ir.Struct) and not enumerated_of(t):
                            ok = [list(e) for e in v['ext']] == [x_ts_ref(t, ns.name)]
                            want_txt = 'extends ' + t.name
                        else:
                            want_t = canon(x_ts_type(t, ns.name, True))
                            ok = [canon(m[1]) for m in v['members'] if m[0] == f.name] == [want_t]
                            want_txt = render(want_t, 'ts')
                        if not ok:
                            self.P('%s: tag %s is not declared at its mapped type %s' % (where, f.name, want_txt),
                                   {'kind': 'member_type', 'backend': 'tsd_types', 'type_kind': 'union',
                                    'ir': type(t).__name__}, tag=f.name)
            for a in ns.aliases:
                d = one(a, 'alias')
                if d is None:
                    continue
                want_t = canon(x_ts_type(a.data_type, ns.name, False))
                if d['kind'] != 'type' or canon(d['rhs']) != want_t:
                    self.P('tsd_types[%s] alias %s.%s = %s, mapped type is %s' % (
                        label, ns.name, a.name, render(canon(d['rhs']), 'ts'), render(want_t, 'ts')),
                        {'kind': 'member_type', 'backend': 'tsd_types', 'type_kind': 'alias',
                         'ir': type(a.data_type).__name__}, type='%s.%s' % (ns.name, a.name))
        # every reference resolves
        exported = {}
        for d in decls:
            if d['exported']:
                exported.setdefault(d['scope'], set()).add(d['name'])
        for fn, sc in scans.items():
            local = {}
            for d in sc['decls']:
                local.setdefault(d['scope'], set()).add(d['name'])
            star = dict(sc['star_imports'])
            for d in sc['decls']:
                for rns, rname in decl_refs(d):
                    if rns is None:
                        ok = (rname in TS_BUILTINS or rname in d['tparams'] or rname in local.get(d['scope'], ())
                              or rname in local.get(None, ()))
                    else:
                        ok = (rname in local.get(rns, ()) and (rname in exported.get(rns, ())))
                        if not ok and rns in star:
                            ok = rname in exported.get(star[rns], ())
                    if not ok:
                        self.P('tsd_types[%s] %s: %s refers to %s%s which is neither declared nor imported there' % (
                            label, fn, d['name'], (rns + '.') if rns else '', rname),
                            {'kind': 'unresolved_reference', 'backend': 'tsd_types',
                             'mode': 'split' if split else 'single', 'qualified': rns is not None},
                            file=fn, decl=d['name'], name='%s%s' % ((rns + '.') if rns else '', rname))
        return scans

    # ---- js_types -------------------------------------------------------------------------------------------
    def js_types(self, label, files):
        ir, api = self.ir, self.api
        text = files.get('types.js', '')
        sc = scan_jsdoc_types(text, 'types.js')
        for _k, msg in sc['problems']:
            self.P('js_types output cannot be scanned: %s' % msg, {'kind': 'malformed_output', 'backend': 'js_types'})
        # the file consists of comments only: anything else is text that escaped from a comment
        stray = re.sub(r'//[^\n]*', '', re.sub(r'/\*.*?\*/', '', text, flags=re.S)).strip()
        if stray:
            self.P('js_types output has text outside its comments: %r' % stray[:60],
                   {'kind': 'malformed_output', 'backend': 'js_types'}, stray=stray[:200])
            if self.injected:
                # a `*/` of the spec ended a comment early: the typedef tags after it are no longer inside a JSDoc
                # block, so nothing beyond the malformed text is judged
                self.stat('not_judged.after_closed_comment')
                return sc
        by = {}
        for d in sc['decls']:
            by.setdefault(d['name'], []).append(d)
        all_names = ['Error', 'UserMessage', 'Timestamp'] + [x_js_name(dt) for ns in api.namespaces.values()
                                                               for dt in ns.data_types]
        clash = _dups(all_names)
        if clash:
            self.stat('hinj.js_types.apis_with_clash')
        for ns in api.namespaces.values():
            for dt in ns.data_types:
                name = x_js_name(dt)
                kind_word = 'struct' if isinstance(dt, ir.Struct) else 'union'
                if name in clash:
                    self.stat('hinj.js_types.skipped')
                    continue
                found = by.get(name, [])
                if len(found) != 1:
                    self.P('js_types declares %s %s.%s (%s) %d times' % (kind_word, ns.name, dt.name, name, len(found)),
                           {'kind': 'missing_declaration' if not found else 'duplicate_declaration',
                            'backend': 'js_types', 'type_kind': kind_word}, type='%s.%s' % (ns.name, dt.name))
                    continue
                d = found[0]
                mem = {}
                for m in d['members']:
                    mem.setdefault(m[0], []).append(m)
                where = 'js_types %s %s.%s' % (kind_word, ns.name, dt.name)
                members = [f for c in x_chain(dt) for f in c.fields]
                for f in members:
                    t, nullable = x_strip(f.data_type)
                    if kind_word == 'union' and isinstance(t, ir.Void):
                        continue
                    want_t = canon(x_js_type(t))
                    want_opt = True if kind_word == 'union' else nullable
                    got = mem.get(f.name, [])
                    if len(got) != 1:
                        self.P('%s: member %s declared %d times' % (where, f.name, len(got)),
                               {'kind': 'missing_member' if not got else 'duplicate_member', 'backend': 'js_types',
                                'type_kind': kind_word}, member=f.name)
                        continue
                    if canon(got[0][1]) != want_t:
                        self.P('%s: member %s has type %s, mapped type is %s' % (
                            where, f.name, render(canon(got[0][1]), 'js'), render(want_t, 'js')),
                            {'kind': 'member_type', 'backend': 'js_types', 'type_kind': kind_word,
                             'ir': type(t).__name__}, member=f.name)
                    if bool(got[0][2]) != want_opt:
                        self.P('%s: member %s optional=%s but nullable=%s' % (where, f.name, got[0][2], nullable),
                               {'kind': 'optional_mismatch', 'backend': 'js_types', 'type_kind': kind_word},
                               member=f.name)
                if kind_word == 'struct' and x_in_tree(dt):
                    tagm = [canon(m[1]) for m in mem.get('.tag', [])]
                    lits = sorted(tagm[0][1]) if len(tagm) == 1 and tagm[0][0] == 'lits' else None
                    if lits != x_tags(dt):
                        self.P('%s: .tag is %s, expected the subtype tags %s' % (where, tagm, x_tags(dt)),
                               {'kind': 'member_type', 'backend': 'js_types', 'type_kind': 'struct_tags'})
                if kind_word == 'union':
                    tagm = [canon(m[1]) for m in mem.get('.tag', [])]
                    want = ['lits', [f.name for f in members]]
                    if tagm != ([want] if members else []):          # no tags: no `.tag` property
                        self.P('%s: .tag is %s, expected the tags %s' % (where, tagm, want[1]),
                               {'kind': 'member_type', 'backend': 'js_types', 'type_kind': 'union_tags'})
        declared = set(by)
        for d in sc['decls']:
            for rns, rname in decl_refs(d):
                if not (rns is None and (rname in JS_BUILTINS or rname in d['tparams'] or rname in declared)):
                    self.P('js_types: %s refers to %s which is not declared' % (d['name'], rname),
                           {'kind': 'unresolved_reference', 'backend': 'js_types'}, decl=d['name'], name=rname)
        return sc

    # ---- clients --------------------------------------------------------------------------------------------
    def routes(self):
        out = []
        for ns in self.api.namespaces.values():
            for r in ns.routes:
                out.append((ns, r, x_func(ns.name, r.name, r.version)))
        return out

    def js_client(self, label, opts, files, node_rec, js_declared):
        ir, api = self.ir, self.api
        text = files.get('client.mjs', '')
        sc = scan_js_client(text)
        schema = [f.name for f in api.route_schema.fields] if api.route_schema is not None else []
        routes = self.routes()
        clash = _dups([n for _ns, _r, n in routes])
        if clash:
            self.stat('hinj.clients.apis_with_clash')
        if node_rec is not None and not node_rec.get('ok'):
            self.P('js_client[%s] output does not load in node: %s' % (label, node_rec.get('error')),
                   {'kind': 'js_syntax', 'backend': 'js_client'}, error=node_rec.get('error'))
            return sc
        recorded = {r['name']: r for r in (node_rec or {}).get('routes', [])}
        scanned = {}
        for f in sc['fns']:
            scanned.setdefault(f['name'], []).append(f)
        want_names = {n for _ns, _r, n in routes}
        extra = set(scanned) - want_names
        if extra:
            self.P('js_client[%s] defines functions for no route: %s' % (label, sorted(extra)),
                   {'kind': 'extra_function', 'backend': 'js_client'})
        wrap_r, wrap_e = opts.get('wrap_response', ''), opts.get('wrap_error', '')
        known = JS_BUILTINS | js_declared | {wrap_r, wrap_e, 'Error'}
        for ns, r, fname in routes:
            if fname in clash:
                self.stat('hinj.clients.skipped')
                continue
            where = 'js_client[%s] route %s/%s:%d (%s)' % (label, ns.name, r.name, r.version, fname)
            got = scanned.get(fname, [])
            if len(got) != 1:
                self.P('%s is defined %d times' % (where, len(got)),
                       {'kind': 'missing_function' if not got else 'duplicate_function', 'backend': 'js_client'},
                       route=[ns.name, r.name, r.version])
                continue
            void = isinstance(r.arg_data_type, ir.Void)
            want_params = ([] if void else ['arg']) + (['options'] if opts.get('request_options') else [])
            if got[0]['params'] != want_params:
                self.P('%s has parameters %s, expected %s' % (where, got[0]['params'], want_params),
                       {'kind': 'route_call', 'backend': 'js_client', 'what': 'params'}, route=[ns.name, r.name, r.version])
            if node_rec is not None:
                rec = recorded.get(fname)
                want = [x_url(ns.name, r.name, r.version), 'null' if void else 'arg'] + \
                       [('attr', (r.attrs or {}).get(a)) for a in schema] + \
                       (['options'] if opts.get('request_options') else [])
                if rec is None or rec.get('err') or len(rec.get('calls', [])) != 1:
                    self.P('%s: calling it made %s request() calls (%s)' % (
                        where, None if rec is None else len(rec.get('calls', [])), rec and rec.get('err')),
                        {'kind': 'route_call', 'backend': 'js_client', 'what': 'call_count'},
                        route=[ns.name, r.name, r.version])
                else:
                    call = canon_call(rec['calls'][0])
                    bad, cause = None, None
                    if len(call) != len(want):
                        bad = 'arity'
                    else:
                        misread = []                             # per wrong attribute: explained by the \U escape?
                        for i, (g, w) in enumerate(zip(call, want)):
                            if isinstance(w, tuple):
                                if not (isinstance(g, tuple) and same_value(g[1], w[1])):
                                    bad = bad or 'attrs'
                                    misread.append(isinstance(g, tuple) and isinstance(w[1], str)
                                                   and isinstance(g[1], str) and g[1] == py_repr_misread_by_js(w[1]))
                            elif g != w:
                                bad = 'url' if i == 0 else ('arg' if i == 1 else 'options')
                                break
                        if bad == 'attrs' and all(misread):
                            cause = 'python_U_escape'
                    if not bad and rec.get('ret') != {'$m': 'ret'}:
                        bad = 'return'
                    if bad:
                        sig = {'kind': 'route_call', 'backend': 'js_client', 'what': bad}
                        if cause:
                            sig['cause'] = cause
                            self.unmodelled = cause
                        self.P('%s calls request(%s), expected request(%s)' % (where, call, want), sig,
                               route=[ns.name, r.name, r.version], got=repr(call), want=repr(want))
            # JSDoc types of the comment
            want_arg = None if void else canon(x_js_type(r.arg_data_type))
            res = canon(x_js_type(r.result_data_type))
            want_ret = ['app2', 'Promise', [['app', wrap_r, res] if wrap_r else res,
                                           ['app', wrap_e or 'Error', canon(x_js_type(r.error_data_type))]]]
            if got[0]['doc'] and (canon(got[0]['arg']) != want_arg or _canon_deep(got[0]['returns']) != want_ret):
                self.P('%s is documented as (%s) -> %s, mapped types are (%s) -> %s' % (
                    where, render(canon(got[0]['arg']), 'js'), got[0]['returns'], render(want_arg, 'js'), want_ret),
                    {'kind': 'member_type', 'backend': 'js_client', 'type_kind': 'route'},
                    route=[ns.name, r.name, r.version])
            for t in (got[0]['arg'], got[0]['returns']):
                for rns, rname in names_in(t) if t and t[0] != 'app2' else _names_deep(t):
                    if not (rns is None and rname in known):
                        self.P('%s refers to %s which js_types does not declare' % (where, rname),
                               {'kind': 'unresolved_reference', 'backend': 'js_client'}, name=rname)
        return sc

    def tsd_client(self, label, opts, files, companion):
        """companion: scan of the single-file tsd_types output of the same API ({} when it has no types)"""
        ir = self.ir
        text = files.get('client.d.ts', '')
        sc = scan_ts(text, 'client.d.ts')
        for kind, msg in sc['problems']:
            if kind == 'malformed':
                self.P('tsd_client[%s] output cannot be scanned: %s' % (label, msg),
                       {'kind': 'malformed_output', 'backend': 'tsd_client'}, message=msg)
                return sc
        if self.injected and any(k == 'malformed' for k, _m in (companion or {}).get('problems', [])):
            self.stat('not_judged.after_closed_comment')         # the companion declarations are not all known
            return sc
        routes = self.routes()
        clash = _dups([n for _ns, _r, n in routes])
        got_by = {}
        for m in sc['methods']:
            got_by.setdefault(m['name'], []).append(m)
        extra = set(got_by) - {n for _ns, _r, n in routes}
        if extra:
            self.P('tsd_client[%s] declares methods for no route: %s' % (label, sorted(extra)),
                   {'kind': 'extra_function', 'backend': 'tsd_client'})
        wrap_r, wrap_e = opts.get('wrap_response', ''), opts.get('wrap_error', '')
        imported = {n for names, _m in sc['named_imports'] for n in names}
        comp_top, comp_ns = set(), {}
        for d in (companion or {}).get('decls', []):
            if d['scope'] is None:
                comp_top.add(d['name'])
            else:
                comp_ns.setdefault(d['scope'], set()).add(d['name'])
        if opts.get('import_ns'):
            for n in imported:
                if n not in comp_ns:
                    self.P('tsd_client[%s] imports %s which tsd_types does not declare' % (label, n),
                           {'kind': 'unresolved_reference', 'backend': 'tsd_client', 'mode': 'import', 'what': 'import'})
        for ns, r, fname in routes:
            if fname in clash:
                self.stat('hinj.clients.skipped')
                continue
            where = 'tsd_client[%s] route %s/%s:%d (%s)' % (label, ns.name, r.name, r.version, fname)
            got = got_by.get(fname, [])
            if len(got) != 1:
                self.P('%s is declared %d times' % (where, len(got)),
                       {'kind': 'missing_function' if not got else 'duplicate_function', 'backend': 'tsd_client'},
                       route=[ns.name, r.name, r.version])
                continue
            void = isinstance(r.arg_data_type, ir.Void)
            want_params = [] if void else [['arg', canon(x_ts_type(r.arg_data_type, None, True))]]
            res = canon(x_ts_type(r.result_data_type, None, True))
            want_ret = ['app', 'Promise', ['app', wrap_r, res] if wrap_r else res]
            have_params = [[p[0], canon(p[1])] for p in got[0]['params']]
            if have_params != want_params or canon(got[0]['ret']) != want_ret:
                self.P('%s is declared (%s): %s, mapped types are (%s): %s' % (
                    where, have_params, render(canon(got[0]['ret']), 'ts'), want_params, render(want_ret, 'ts')),
                    {'kind': 'member_type', 'backend': 'tsd_client', 'type_kind': 'route'},
                    route=[ns.name, r.name, r.version])
            err = ts_error_type_of_comment(text, fname)
            want_err = ['app', wrap_e or 'Error', canon(x_ts_type(r.error_data_type, None, True))]
            if err is not None and canon(err) != want_err:
                self.P('%s documents the error type %s, mapped type is %s' % (where, render(canon(err), 'ts'),
                                                                             render(want_err, 'ts')),
                       {'kind': 'member_type', 'backend': 'tsd_client', 'type_kind': 'route_error'},
                       route=[ns.name, r.name, r.version])
            for t in [p[1] for p in got[0]['params']] + [got[0]['ret']]:
                for rns, rname in names_in(t):
                    if rns is None:
                        ok = rname in TS_BUILTINS or rname in (wrap_r, wrap_e) or \
                            (not opts.get('import_ns') and rname in comp_top)
                    else:
                        ok = rname in comp_ns.get(rns, ()) and (not opts.get('import_ns') or rns in imported)
                    if not ok:
                        self.P('%s refers to %s%s which is neither declared nor imported' % (
                            where, (rns + '.') if rns else '', rname),
                            {'kind': 'unresolved_reference', 'backend': 'tsd_client',
                             'mode': 'import' if opts.get('import_ns') else 'global', 'name': rname if rns is None else 'qualified'},
                            name='%s%s' % ((rns + '.') if rns else '', rname))
        return sc


def _canon_deep(t):
    if t is None:
        return None
    if t[0] == 'app2':
        return ['app2', t[1], [_canon_deep(a) for a in t[2]]]
    if t[0] == 'app':
        return ['app', t[1], _canon_deep(t[2])]
    return canon(t)


def _names_deep(t):
    return names_in(t)


# ----------------------------------------------------------------------------------------------
# suites
# ----------------------------------------------------------------------------------------------

def random_types(api, rng, n):
    """random IR type objects built from the API's user types, aliases and the primitives"""
    ir = _ir()
    users = [dt for ns in api.namespaces.values() for dt in list(ns.data_types) + list(ns.aliases)]
    prims = [ir.Boolean, ir.Bytes, ir.Float32, ir.Float64, ir.Int32, ir.Int64, ir.UInt32, ir.UInt64, ir.String,
             lambda: ir.Timestamp('%Y-%m-%d'), ir.Void]

    def gen(depth):
        r = rng.random()
        if depth <= 0 or r < 0.25:
            if users and rng.random() < 0.7:
                return rng.choice(users)
            return rng.choice(prims)()
        if r < 0.5:
            return ir.List(gen(depth - 1))
        if r < 0.7:
            return ir.Map(ir.String(), gen(depth - 1))
        if r < 0.8:
            inner = gen(depth - 1)
            return inner if isinstance(inner, (ir.Nullable, ir.Void)) else ir.Nullable(inner)
        return rng.choice(users) if users else rng.choice(prims)()
    return [gen(rng.randint(0, 3)) for _ in range(n)]


class Pending:
    """everything recorded for one spec until the batched driver / node calls have answered"""
    def __init__(self, key, files, api):
        self.key, self.files, self.api = key, files, api
        self.jobs, self.after = [], []          # after: callbacks (reply) in job order
        self.runs = []                          # (backend, label, argv, opts, status, payload, outdir)


def prepare(ck, key, files, full, root):
    """compile, run the real backends, queue the model jobs"""
    try:
        api = pygen.compile_specs(files)
    except Exception as e:                                       # noqa: BLE001
        ck.stat('spec.compile_failed')
        ck.note('spec %s does not compile: %r' % (key, e)) if len(ck.notes) < 5 else None
        return None
    pd = Pending(key, files, api)
    pd.api_json = api_json(api)
    ntypes = sum(len(ns.data_types) + len(ns.aliases) for ns in api.namespaces.values())
    nroutes = sum(len(ns.routes) for ns in api.namespaces.values())
    pd.nontrivial = bool(ntypes or nroutes)
    ck.hist('c16.namespaces', len(api.namespaces))
    ck.hist('c16.types', min(ntypes // 5 * 5, 40))
    ck.hist('c16.routes', min(nroutes // 3 * 3, 30))
    for cell in cells_of(api):
        ck.hist('c16.cell', cell)                                # number of specs in which the cell occurs
    # mapper jobs
    from stone.backends import js_helpers, tsd_helpers
    tys = random_types(api, ck.rng, ck.scale(24, 60))
    nss = list(api.namespaces.values())
    inside = ck.rng.choice(nss + [None]) if nss else None
    tj = [ty_json(t) for t in tys]
    real = {
        'js': [js_helpers.fmt_type(t) for t in tys],
        'js_name': [js_helpers.fmt_type_name(t) for t in tys],
        'tsd': [tsd_helpers.fmt_type(t, inside) for t in tys],
        'tsd_name': [tsd_helpers.fmt_type_name(t, inside) for t in tys],
    }
    ref = {
        'js': [render(canon(x_js_type(t, True)), 'js') for t in tys],
        'js_name': [render(canon(x_js_type(t, False)), 'js') for t in tys],
        'tsd': [render(canon(x_ts_type(t, inside.name if inside else None, True)), 'ts') for t in tys],
        'tsd_name': [render(canon(x_ts_type(t, inside.name if inside else None, False)), 'ts') for t in tys],
    }
    pd.mapper = (tys, tj, real, ref, inside.name if inside else None)
    for mp in ('js', 'js_name', 'tsd', 'tsd_name'):
        pd.jobs.append({'job': 'fmt', 'mapper': mp, 'inside': inside.name if inside else None, 'types': tj})
    pd.jobs.append({'job': 'wf', 'opts': {'filename': 'types.d.ts'}})
    pd.jobs.append({'job': 'wf', 'opts': {'filename': None}})
    for i, (backend, label, argv, opts) in enumerate(option_sets(api, ck.rng, full)):
        out = os.path.join(root, '%s_%d_%s_%s' % (re.sub(r'\W', '_', str(key))[:40], i, backend, label))
        status, payload = run_backend(api, backend, argv, out)
        pd.runs.append((backend, label, argv, opts, status, payload, out))
        pd.jobs.append({'job': 'decls', 'backend': backend, 'opts': opts})
        ck.hist('c16.runs', '%s[%s] %s' % (backend, label, status))
    return pd


def _model_fn_canon(f, backend, opts):
    wrap_r, wrap_e = opts.get('wrap_response', ''), opts.get('wrap_error', '')
    res, err = canon(f['result']), canon(f['error'])
    if backend == 'js_client':
        return {'name': f['name'], 'params': f['params'], 'arg': canon(f['arg']),
                'returns': ['app2', 'Promise', [['app', wrap_r, res] if wrap_r else res, ['app', wrap_e or 'Error', err]]]}
    return {'name': f['name'], 'params': [] if f['arg'] is None else [['arg', canon(f['arg'])]],
            'ret': ['app', 'Promise', ['app', wrap_r, res] if wrap_r else res],
            'err': ['app', wrap_e or 'Error', err]}


def _model_call(f):
    out = [f['url']]
    for a in f['call']:
        out.append(a if isinstance(a, str) else ('attr', py_of_val(a[1])))
    return out


def _calls_equal(a, b):
    if len(a) != len(b):
        return False
    for g, w in zip(a, b):
        if isinstance(w, tuple) or isinstance(g, tuple):
            if not (isinstance(w, tuple) and isinstance(g, tuple) and same_value(g[1], w[1])):
                return False
        elif g != w:
            return False
    return True


class _Quiet:
    """correspondence bookkeeping that drops everything recorded under 'decl.js.not_compared'"""
    def __init__(self, ck):
        self._ck = ck

    def __getattr__(self, k):
        return getattr(self._ck, k)

    def agree(self, suite, n=1):
        if suite != 'decl.js.not_compared':
            self._ck.agree(suite, n)

    def disagree(self, suite, *a):
        if suite != 'decl.js.not_compared':
            self._ck.disagree(suite, *a)


def settle(ck, pd, reply, node_recs, check_syntax):
    """correspondence + direct oracle for one spec once the model (and node) have answered"""
    ck = _Quiet(ck)
    outs = reply.get('out')
    case0 = {'suite': 'decl_js', 'key': str(pd.key), 'files': [list(f) for f in pd.files]}
    if outs is None:
        ck.disagree('decl.js.protocol', case0, 'request', reply)
        return
    ck.case(('c16', str(pd.key)), pd.nontrivial)
    judge = Judge(pd.api, ck)
    # -- mappers
    tys, tj, real, ref, inside = pd.mapper
    for k, mp in enumerate(('js', 'js_name', 'tsd', 'tsd_name')):
        model = outs[k]
        for t, r, m, x in zip(tj, real[mp], model, ref[mp]):
            ck.case(('map', mp, json.dumps(t)), True)
            if r == m:
                ck.agree('decl.js.mapper')
            else:
                ck.disagree('decl.js.mapper', {'mapper': mp, 'type': t, 'inside': inside}, r, m)
            if r != x:
                judge.P('%s of %s is %s, the mapped type is %s' % (mp, json.dumps(t), r, x),
                        {'kind': 'mapper', 'mapper': mp, 'ir': t[0]}, type=t, inside=inside)
    # -- hypotheses
    wf1, wf2 = outs[4], outs[5]
    ck.stat('wf.checked')
    if not (wf1.get('wf') and wf2.get('wf')):
        ck.disagree('decl.js.wf', case0, 'frontend output', 'apiWF = false')
    else:
        ck.agree('decl.js.wf')
    for k in ('tsd_inj', 'js_inj', 'route_inj'):
        if not wf1.get(k) or not wf2.get(k):
            ck.stat('hinj.model.%s_false' % k)
    # -- backends
    companion, js_declared = None, set()
    replies = outs[6:]
    for (backend, label, argv, opts, status, payload, out), mrep in zip(pd.runs, replies):
        case = dict(case0, backend=backend, label=label, argv=[a for a in argv])
        ck.case(('run', str(pd.key), backend, label), pd.nontrivial)
        suite = 'decl.js.%s' % backend
        if status == 'crash':
            comment_newline = (payload['exc'] == 'AssertionError' and 'newline' in payload['message']
                               and attr_comment_has_newline(pd.api, argv))
            if comment_newline:
                # emit() refuses the `-a` comment line of an attribute value with a line break; the comment text
                # layer is not modelled, so only the oracle speaks about this run
                ck.stat('not_compared.attribute_comment_newline')
            elif 'error' in mrep and mrep['error'].split(':')[0] == payload['exc']:
                ck.agree(suite)
            else:
                ck.disagree(suite, case, payload, mrep if 'error' in mrep else 'ok')
            if payload['exc'] == 'RuntimeError' and 'name conflict' in payload['message']:
                ck.stat('refused.name_conflict')
                continue
            sig = {'kind': 'backend_crash', 'backend': backend, 'exc': payload['exc'], 'site': payload['site']}
            if comment_newline:
                sig['cause'] = 'attribute_comment_newline'
            m = re.search(r'Object of type (\w+) is not JSON serializable', payload['message'])
            if m:
                sig['value_type'] = m.group(1)
            ck.failing_input('%s[%s] does not complete: %s (in %s)' % (backend, label, payload['message'],
                                                                      payload['site']), sig, dict(case, crash=payload))
            continue
        files = payload
        for fn, marks in doc_text_leaks(files):
            ck.stat('comments.leaks')
            judge.P('%s[%s] %s: text of a doc string is outside its comment (read as code): %s -- %s' % (
                backend, label, fn, ', '.join(marks[:4]), describe_marker(marks[0])),
                {'kind': 'doc_text_outside_comment', 'backend': backend}, file=fn, markers=marks[:8])
        def closed_early(suite):
            # a `*/` of the spec ended a generated comment early in this output (the oracle has just said so): the text
            # layer, which is not modelled, decides what a scanner sees, so only the oracle judges this run
            if judge.injected and any(sig.get('cause') == judge.inject_cause for _w, sig, _d in judge.problems):
                ck.stat('not_compared.%s' % judge.inject_cause)
                return 'decl.js.not_compared'
            return suite
        if backend == 'tsd_types':
            scans = judge.tsd_types(label, opts, files)
            suite = closed_early(suite)
            if label == 'single':
                companion = scans.get('types.d.ts', {'decls': []})
            real_decls = [d for sc in scans.values() for d in sc['decls']]
            real_imports = sorted([fn, n] for fn, sc in scans.items() for n, _m in sc['star_imports'])
            if 'ok' in mrep:
                same = (sort_decls(real_decls) == sort_decls(mrep['ok']['decls'])
                        and real_imports == sorted(mrep['ok']['imports'])
                        and not any(k == 'malformed' for sc in scans.values() for k, _ in sc['problems']))
                if same:
                    ck.agree(suite)
                else:
                    a, b = sort_decls(real_decls), sort_decls(mrep['ok']['decls'])
                    diff = [x for x in a if x not in b][:2], [x for x in b if x not in a][:2]
                    ck.disagree(suite, case, {'only_real': diff[0], 'imports': real_imports},
                                {'only_model': diff[1], 'imports': sorted(mrep['ok']['imports'])})
            else:
                ck.disagree(suite, case, 'ok', mrep)
        elif backend == 'js_types':
            sc = judge.js_types(label, files)
            suite = closed_early(suite)
            js_declared = {d['name'] for d in sc['decls']}
            if 'ok' in mrep and sort_decls(sc['decls']) == sort_decls(mrep['ok']) and not sc['problems']:
                ck.agree(suite)
            else:
                a, b = sort_decls(sc['decls']), sort_decls(mrep.get('ok', []))
                ck.disagree(suite, case, [x for x in a if x not in b][:2], [x for x in b if x not in a][:2] or mrep)
        elif backend == 'js_client':
            path = os.path.join(out, 'client.mjs')
            nrec = node_recs.get(path)
            if check_syntax and label == ('all' if check_syntax == 'all' else 'plain'):
                ok, msg = node_check(path)
                ck.stat('node.check')
                if not ok:
                    why = [l for l in msg.splitlines() if 'Error' in l][:1] or msg.strip().splitlines()[-1:]
                    judge.P('js_client[%s]: node --check fails: %s' % (label, why[0].strip() if why else ''),
                            {'kind': 'js_syntax', 'backend': 'js_client'}, stderr=msg)
            if not js_declared:
                js_declared = {'Error', 'UserMessage', 'Timestamp'} | {x_js_name(dt) for ns in pd.api.namespaces.values()
                                                                         for dt in ns.data_types}
            judge.unmodelled = None
            sc = judge.js_client(label, opts, files, nrec, js_declared)
            suite = closed_early(suite)
            if judge.unmodelled:
                # the escaping of string literals is not modelled (the model takes attribute values as they are)
                ck.stat('not_compared.%s' % judge.unmodelled)
                suite = 'decl.js.not_compared'
            if 'ok' in mrep and nrec is not None and nrec.get('ok'):
                rec = {r['name']: r for r in nrec['routes']}
                real_fns = sorted(({'name': f['name'], 'params': f['params'], 'arg': canon(f['arg']),
                                    'returns': _canon_deep(f['returns'])} for f in sc['fns']), key=lambda f: f['name'])
                model_fns = sorted((_model_fn_canon(f, backend, opts) for f in mrep['ok']), key=lambda f: f['name'])
                same = real_fns == model_fns
                if same:
                    for f in mrep['ok']:
                        r = rec.get(f['name'])
                        if r is None or len(r['calls']) != 1 or not _calls_equal(canon_call(r['calls'][0]), _model_call(f)):
                            same = False
                            break
                if same:
                    ck.agree(suite)
                else:
                    ck.disagree(suite, case, real_fns[:3], model_fns[:3])
            elif 'ok' in mrep:
                ck.disagree(suite, case, 'does not load in node', 'ok')
            else:
                ck.disagree(suite, case, 'ok', mrep)
        elif backend == 'tsd_client':
            sc = judge.tsd_client(label, opts, files, companion)
            suite = closed_early(suite)
            if 'ok' in mrep and not sc['problems']:
                text = files.get('client.d.ts', '')
                real_ms = []
                for m in sc['methods']:
                    e = ts_error_type_of_comment(text, m['name'])
                    real_ms.append({'name': m['name'], 'params': [[p[0], canon(p[1])] for p in m['params']],
                                    'ret': canon(m['ret']), 'err': canon(e)})
                model_ms = [_model_fn_canon(f, backend, opts) for f in mrep['ok']['methods']]
                key = lambda f: f['name']                                           # noqa: E731
                real_imp = sorted(n for names, _m in sc['named_imports'] for n in names)
                if sorted(real_ms, key=key) == sorted(model_ms, key=key) and real_imp == sorted(mrep['ok']['imports']):
                    ck.agree(suite)
                else:
                    ck.disagree(suite, case, {'methods': sorted(real_ms, key=key)[:3], 'imports': real_imp},
                                {'methods': sorted(model_ms, key=key)[:3], 'imports': mrep['ok']['imports']})
            else:
                ck.disagree(suite, case, sc['problems'] or 'ok', mrep if 'error' in mrep else 'ok')
        # report what the oracle found for this run
        for what, sig, detail in judge.problems:
            ck.failing_input(what, sig, dict(case, detail=detail))
        judge.problems = []
    for what, sig, detail in judge.problems:
        ck.failing_input(what, sig, dict(case0, detail=detail))


def run_specs(ck, specs, full, syntax_every):
    """specs: [(key, files)]; batched: real backends, then one model call, one node call, then judgement"""
    root = core.scratch('stone-verif-c16-')
    pending = []
    for key, files in specs:
        pd = prepare(ck, key, files, full, root)
        if pd is not None:
            pending.append(pd)
    replies = ck.driver([{'op': 'decl.js.run', 'api': pd.api_json, 'jobs': pd.jobs} for pd in pending])
    paths = [os.path.join(out, 'client.mjs') for pd in pending for (b, _l, _a, _o, st, _p, out) in pd.runs
             if b == 'js_client' and st == 'ok']
    node_recs = {}
    for i in range(0, len(paths), 400):
        node_recs.update(node_eval(paths[i:i + 400]))
    ck.stat('node.modules_evaluated', len(paths))
    for i, (pd, rep) in enumerate(zip(pending, replies)):
        settle(ck, pd, rep, node_recs, bool(syntax_every) and i % syntax_every == 0 and ('all' if i % (2 * syntax_every) else 'plain'))


# ----------------------------------------------------------------------------------------------
# grid family: every type shape x every position a type can occur in, with the same type and route names in two
# namespaces and an alias-only namespace (coverage-driven widening: specgen reaches exotic route types, foreign
# aliases in routes and alias-only namespaces in well under 1% of its specs)
# ----------------------------------------------------------------------------------------------

def _g_types(mark):
    """the user types of one grid namespace; `mark` makes the members of gbase and guse differ, so a declaration that
    resolves a name in the wrong namespace shows as a member difference"""
    return '''struct Plain
    id_%(m)s String

struct Root
    union
        leaf_a LeafA
        leaf_b LeafB
    rid_%(m)s String

struct LeafA extends Root
    a_%(m)s Int32

struct LeafB extends Root
    b_%(m)s Int32?

struct Solo
    union_closed
        only_%(m)s OnlyLeaf
    sid String

struct OnlyLeaf extends Solo
    o Boolean

union Choice
    none
    one_%(m)s Plain

union_closed Shut
    yes
    no_%(m)s

alias Text = String
alias PlainRef = Plain
alias RootRef = Root
alias Roots = List(Root)
alias MaybePlain = Plain?
alias Hop = PlainRef
''' % {'m': mark}


G_GBASE = 'namespace gbase\n\n' + _g_types('b') + '''
route r0(Plain, Root, Choice)

route r1:2(Void, Roots, Void)
'''

G_GALIAS = '''namespace galias

import gbase

alias Id = String
alias Far = gbase.Root
alias FarHop = gbase.Hop
alias FarList = List(gbase.Solo)
alias FarOpt = gbase.Choice?
'''

# (type expression inside guse, already nullable)
G_USER = ('Plain', 'Root', 'LeafA', 'Solo', 'OnlyLeaf', 'Choice', 'Shut', 'Text', 'PlainRef', 'RootRef', 'Roots', 'Hop')
G_SHAPES = ([(p, False) for p in ('String', 'Int64', 'Float64', 'Boolean', 'Bytes', 'Timestamp("%Y-%m-%d")')] +
            [(u, False) for u in G_USER] + [('MaybePlain', True)] +
            [('gbase.' + u, False) for u in G_USER] + [('gbase.MaybePlain', True)] +
            [('galias.Id', False), ('galias.Far', False), ('galias.FarHop', False), ('galias.FarList', False),
             ('galias.FarOpt', True)])
G_WRAPPERS = (('plain', '%s', False), ('opt', '%s?', True), ('list', 'List(%s)', False), ('list_opt', 'List(%s?)', True),
              ('map', 'Map(String, %s)', False), ('map_list', 'Map(String, List(%s))', False),
              ('opt_list', 'List(%s)?', False), ('map_opt', 'Map(String, %s?)', True))

G_FIXED = '''
struct Defaults
    d0 String = "x"
    d1 Int64 = -3
    d2 Float64 = 1.5
    d3 Boolean = true
    d4 Choice = none
    d5 gbase.Choice = none
    d6 Text = "t"
    d7 gbase.Text = "t"
    d8 galias.Id = "i"
    d9 Shut = yes

struct Child extends gbase.Plain
    c1 Int32

struct Child2 extends Plain
    c2 Int32

struct Child3 extends Child
    c3 gbase.Root?

union More extends gbase.Choice
    extra Plain

union More2 extends Choice
    extra2 gbase.Plain

union_closed ShutMore extends gbase.Shut
    maybe
'''


def grid_specs():
    """[(key, files)]: one spec per wrapper; in namespace guse every shape of G_SHAPES under that wrapper is a struct
    field, a union variant, an alias target and the argument, result and error of a route"""
    out = []
    for wname, wfmt, adds_null in G_WRAPPERS:
        tys = [wfmt % expr for expr, nullable in G_SHAPES if not (adds_null and nullable)]
        n = len(tys)
        lines = ['namespace guse', '', 'import gbase', 'import galias', '', _g_types('u') + G_FIXED, 'struct Fields']
        lines += ['    f%d %s' % (i, t) for i, t in enumerate(tys)]
        lines += ['', 'union Variants', '    nothing']
        lines += ['    v%d %s' % (i, t) for i, t in enumerate(tys)]
        lines += ['']
        lines += ['alias A%d = %s' % (i, t) for i, t in enumerate(tys)]
        for i in range(n):
            lines += ['', 'route r%d%s(%s, %s, %s)' % (i, ':2' if i % 2 else '', tys[i], tys[(i + 1) % n],
                                                       tys[(i + 2) % n])]
        lines += ['', 'route r0:3(Void, Void, Void)', '']
        out.append(('grid/%s' % wname, [('gbase.stone', G_GBASE), ('galias.stone', G_GALIAS),
                                        ('guse.stone', '\n'.join(lines))]))
    return out


def suite_grid(ck):
    specs = grid_specs()
    ck.stat('grid.specs', len(specs))
    before = ck.stats.get('spec.compile_failed', 0)
    run_specs(ck, specs[:2], full=True, syntax_every=1)          # every option set on the bare and the nullable shapes
    run_specs(ck, specs[2:], full=False, syntax_every=3)         # the base option sets on the container wrappers
    if ck.stats.get('spec.compile_failed', 0) != before:
        ck.note('a spec of the grid family is refused by the frontend: its cells are not explored')
        ck.stat('grid.refused', ck.stats.get('spec.compile_failed', 0) - before)


# ----------------------------------------------------------------------------------------------
# attribute family: route schemas of every attribute type js_client can print (String, integers, floats, Boolean,
# nullable and defaulted, an alias of String) x adversarial values x attribute order x void / struct argument, the
# same route names in two namespaces. (The specgen schemas mix in Bytes / Timestamp / union attributes, on which
# js_client crashes -- listed findings -- so most generated specs with a schema never reach the request() oracle.)
# ----------------------------------------------------------------------------------------------

A_STRINGS = ("it's", 'say "hi"', 'it\'s "both"', 'back\\slash', 'ends with \\', "\\'", '\\n', 'a\nb', 'tab\there', '',
             ' ', '</script>', '${x}', '`tick`', '<!--', 'café 中文', '\U0001f642 smile', '\x7f', '\x01\x1f',
             '\xa0nbsp', '\u200bzw', '\ufeff', 'null', 'true', '0', "'); alert(1); ('", '%s {} {0}', 'a,b', 'x' * 90)
A_INTS = {'Int32': (0, 1, -1, 2 ** 31 - 1, -2 ** 31), 'UInt32': (0, 1, 2 ** 32 - 1),
          'Int64': (0, -7, 2 ** 53 - 1, 2 ** 53 + 1, -2 ** 53 - 1, 2 ** 63 - 1, -2 ** 63),
          'UInt64': (0, 9, 2 ** 53, 2 ** 64 - 1)}
A_FLOATS = {'Float32': (0.0, 0.5, -2.25, 1e10, 3, 1e-07), 'Float64': (0.0, 1.5, -0.5, 1e-07, 1e16, 123456789.125, 5e-324,
                                                                    1.7976931348623157e308, -7, 0.1)}
A_KINDS = ('String', 'String', 'AttrText', 'Int32', 'Int64', 'UInt32', 'UInt64', 'Float32', 'Float64', 'Boolean')


def _a_value(rng, kind):
    if kind in ('String', 'AttrText'):
        if rng.random() < 0.75:
            return rng.choice(A_STRINGS)
        return ''.join(rng.choice(specgen._STR_CH + specgen._STR_UNI) for _ in range(rng.randint(1, 12)))
    if kind in A_INTS:
        return rng.choice(A_INTS[kind])
    if kind in A_FLOATS:
        return rng.choice(A_FLOATS[kind])
    return rng.random() < 0.5


def attr_spec(rng, nfields=None):
    """files of one spec: stone_cfg.Route with `nfields` attribute fields, two namespaces with the same route names"""
    nfields = rng.randint(1, 7) if nfields is None else nfields
    fields = []                                                  # (name, kind, mode, default)
    for i in range(nfields):
        kind = rng.choice(A_KINDS)
        mode = rng.choice(('required', 'default', 'default', 'nullable', 'nullable'))
        fields.append(('%s_%s%d' % (kind.lower()[:4], mode[0], i), kind, mode,
                       _a_value(rng, kind) if mode == 'default' else None))
    cfg = ['namespace stone_cfg', '', 'alias AttrText = String', '', 'struct Route']
    if not fields:
        cfg.append('    "No attributes."')
    for name, kind, mode, dflt in fields:
        cfg.append('    %s %s%s' % (name, kind, '?' if mode == 'nullable' else
                                    (' = ' + specgen.lit(dflt)) if mode == 'default' else ''))
    files = [('stone_cfg.stone', '\n'.join(cfg) + '\n')]
    names = ['get', 'list_all', 'files/move', 'get', 'put_x']
    for ns in ('aone', 'atwo'):
        lines = ['namespace %s' % ns, '', 'struct Arg', '    x Int32', '']
        seen = {}
        for rname in names[:rng.randint(2, len(names))]:
            seen[rname] = seen.get(rname, 0) + rng.choice((1, 1, 2))
            ver = seen[rname]
            head = 'route %s%s(%s, %s, Void)' % (rname, '' if ver == 1 else ':%d' % ver, rng.choice(('Void', 'Arg')),
                                                 rng.choice(('Void', 'Arg')))
            sets = [f for f in fields if f[2] == 'required' or rng.random() < 0.6]
            rng.shuffle(sets)                                    # the order in the spec is not the schema order
            lines.append(head)
            if sets:
                lines.append('    attrs')
                for name, kind, mode, _d in sets:
                    v = None if (mode == 'nullable' and rng.random() < 0.25) else _a_value(rng, kind)
                    lines.append('        %s = %s' % (name, specgen.lit(v)))
            lines.append('')
        files.append(('%s.stone' % ns, '\n'.join(lines)))
    return files


def suite_attrs(ck):
    specs = [('attrs/empty_schema', attr_spec(ck.rng, 0)), ('attrs/one_field', attr_spec(ck.rng, 1))]
    for i in range(ck.scale(8, 80)):
        specs.append(('attrs#%d' % i, attr_spec(ck.rng)))
    ck.stat('attrs.specs', len(specs))
    before = ck.stats.get('spec.compile_failed', 0)
    run_specs(ck, specs, full=False, syntax_every=3)
    if ck.stats.get('spec.compile_failed', 0) != before:
        ck.note('a spec of the attribute family is refused by the frontend')
        ck.stat('attrs.refused', ck.stats.get('spec.compile_failed', 0) - before)



# ----------------------------------------------------------------------------------------------
# comment family: what the generators copy into a block comment, AFTER all of their own rewriting. Every doc site of a
# spec (namespace, alias, struct, field, union, variant, subtype root / leaf, route) carries "units" L + reference + R:
# a doc reference of every tag (:link: :route: :type: :field: :val:) whose expansion begins or ends with a character
# of the comment terminator, directly between prose that supplies the other one (`*` + an expansion that begins with
# `/`, an expansion that ends in `*` + `/`), next to terminators that are there from the start. A marker word follows
# each unit; the oracle (`doc_text_leaks`) reads every output file as JavaScript / TypeScript, removes comments and
# string literals and asks that no marker is left in the code: the text of a doc string stays inside its comment.
# ----------------------------------------------------------------------------------------------

C_REFS = (
    ':link:`/developers/reference https://www.example.com/developers/reference`',     # expansion begins with `/` (JS)
    ':link:`/ https://e.x`',
    ':link:`docs https://e.x/a/*`',                                                   # expansion ends with `*`
    ':link:`*/docs*/ https://e.x/*/x`',
    ':link:`a* /b`',                                                                  # title `a*`, uri `/b`
    ':route:`r`', ':route:`r:2`',
    ':type:`S`', ':type:`nsb.T`',
    ':field:`S.x`', ':field:`nsb.T.x`',
    ':val:`true`', ':val:`-1.5`', ':val:`"/"`', ':val:`"*/"`', ':val:`"*"`',
)
C_EDGE = (('*', ''), ('', '/'), ('*', '/'))                     # the edges that can only form `*/` together with an expansion
C_LEFT = ('', '*', '/', '*/', '**', '/*', ' *', '\\', '*\\', '(*', '_*')
C_RIGHT = ('', '/', '*', '*/', '//', '/*', '/ ', '\\/', '*\\/', '/)', '/.')
C_PLAIN = ('*/', '* /', '*\\/', '**/', '*//', '/*/', '*/*/', '/* x */', '\\*/', '*\n/', '* */', '*/}', '*/ function f() {')
C_UNITS = tuple(l + ref + r for ref in C_REFS for l, r in C_EDGE)
C_SITES = ('namespace nsa', 'alias Al', 'struct S', 'field S.x', 'field S.y', 'union U', 'variant U.a', 'variant U.b',
           'variant U.c', 'struct Root', 'field Root.r', 'struct Leaf', 'field Leaf.l', 'route r', 'route r:2',
           'namespace nsb', 'struct nsb.T', 'field nsb.T.x')
C_LOCAL = 15                                                     # sites below this index lie in namespace nsa
C_MARK = re.compile(r'zq(\d+)u(\d+)x')
C_PER_DOC = 6


def _c_doc(site, units):
    """the doc string of one site: [(unit number or -1, unit text)] -> spec literal"""
    words = ['Doc of site %d.' % site]
    for k, (num, text) in enumerate(units):
        words.append('see %s zq%du%dx' % (text, site, num if num >= 0 else 900 + k))
    return specgen.lit(' '.join(words))


def comment_spec(pick):
    """files of one spec of the comment family; pick(site) -> [(unit number, unit text)]"""
    d = [_c_doc(i, pick(i)) for i in range(len(C_SITES))]
    nsb = ['namespace nsb', '    ' + d[15], '', 'struct T', '    ' + d[16], '    x String', '        ' + d[17], '']
    nsa = ['namespace nsa', '    ' + d[0], '', 'import nsb', '',
           'alias Al = String', '    ' + d[1], '',
           'struct S', '    ' + d[2], '    x String = "dflt"', '        ' + d[3], '    y Int32?', '        ' + d[4], '',
           'union U', '    ' + d[5], '    a', '        ' + d[6], '    b S', '        ' + d[7],
           '    c List(nsb.T)', '        ' + d[8], '',
           'struct Root', '    ' + d[9], '    union', '        leaf Leaf', '    r Al', '        ' + d[10], '',
           'struct Leaf extends Root', '    ' + d[11], '    l String', '        ' + d[12], '',
           'route r(S, U, Void)', '    ' + d[13], '',
           'route r:2(Void, Root, nsb.T)', '    ' + d[14], '']
    return [('nsb.stone', '\n'.join(nsb)), ('nsa.stone', '\n'.join(nsa))]


def _c_foreign(text):
    """namespace nsb does not import nsa: its docs only carry references that resolve there (None: leave the unit out)"""
    if any(t in text for t in (':route:', ':type:`S`', ':field:`S.x`')):
        return None
    return text.replace('`nsb.T', '`T')


def comment_specs(rng, nrandom):
    specs = []
    rounds = -(-len(C_UNITS) // C_PER_DOC)
    for k in range(rounds):                                      # every edge unit at every site (rotation)
        def pick(site, k=k):
            got = []
            for j in range(C_PER_DOC):
                n = (C_PER_DOC * k + j + site) % len(C_UNITS)
                text = C_UNITS[n] if site < C_LOCAL else _c_foreign(C_UNITS[n])
                if text is not None:
                    got.append((n, text))
            return got
        specs.append(('comments/edge%d' % k, comment_spec(pick)))
    for i in range(nrandom):                                     # wider edges, terminators without a reference
        def pick(site):
            got = []
            for _ in range(rng.randint(1, 4)):
                if rng.random() < 0.25:
                    got.append((-1, rng.choice(C_PLAIN)))
                    continue
                text = rng.choice(C_LEFT) + rng.choice(C_REFS) + rng.choice(C_RIGHT)
                if rng.random() < 0.3:
                    text += rng.choice(C_REFS) + rng.choice(C_RIGHT)     # two references back to back
                text = text if site < C_LOCAL else _c_foreign(text)
                if text is not None:
                    got.append((-1, text))
            return got
        specs.append(('comments#%d' % i, comment_spec(pick)))
    return specs


def code_outside_comments(text):
    """the text of a JavaScript / TypeScript file without its comments and string literals (own lexer)"""
    out, i, n = [], 0, len(text)
    while i < n:
        c = text[i]
        if text.startswith('/*', i):
            j = text.find('*/', i + 2)
            i = n if j < 0 else j + 2
            out.append(' ')
        elif text.startswith('//', i):
            j = text.find('\n', i)
            i = n if j < 0 else j
        elif c in '"\'`':
            j = i + 1
            while j < n and text[j] != c and (c == '`' or text[j] != '\n'):
                j += 2 if text[j] == '\\' else 1
            i = j + 1
            out.append(c + c)
        else:
            out.append(c)
            i += 1
    return ''.join(out)


def doc_text_leaks(files):
    """[(file, [marker])]: marker words of doc strings (comment family) found outside comments and strings"""
    found = []
    for fn in sorted(files):
        if 'zq' not in files[fn]:
            continue
        ms = [m.group(0) for m in C_MARK.finditer(code_outside_comments(files[fn]))]
        if ms:
            found.append((fn, ms))
    return found


def describe_marker(mark):
    m = C_MARK.match(mark)
    site, unit = int(m.group(1)), int(m.group(2))
    return 'doc of %s%s' % (C_SITES[site] if site < len(C_SITES) else 'site %d' % site,
                            ' after `%s`' % C_UNITS[unit] if unit < len(C_UNITS) else '')


def suite_comments(ck):
    specs = comment_specs(ck.rng, ck.scale(10, 150))
    ck.stat('comments.specs', len(specs))
    ck.stat('comments.edge_units', len(C_UNITS))
    before = ck.stats.get('spec.compile_failed', 0)
    run_specs(ck, specs, full=True, syntax_every=1)
    if ck.stats.get('spec.compile_failed', 0) != before:
        # the family is written to be accepted: a refusal means the sites were not exercised
        ck.failing_input('a spec of the comment family is refused by the frontend',
                         {'kind': 'comment_family_refused'}, {'suite': 'comments'})


PRESET_CYCLE = ('routes', 'default', 'small', 'rt', 'fe', 'py_safe', 'routes', 'default')


def suite_generated(ck):
    n = ck.scale(64, 900)
    specs = []
    for i in range(n):
        preset = PRESET_CYCLE[i % len(PRESET_CYCLE)]
        model = specgen.gen_model(ck.rng, preset)
        specs.append(('%s#%d' % (preset, i), specgen.render(model, None)))
        ck.hist('c16.preset', preset)
    run_specs(ck, specs, full=True, syntax_every=ck.scale(6, 10))


def suite_names(ck):
    """fmt_camel / fmt_pascal / fmt_func on random identifiers: real == model == reference"""
    from stone.backends.helpers import fmt_camel, fmt_pascal
    from stone.backends.js_helpers import fmt_func as js_func, fmt_url
    from stone.backends.tsd_helpers import fmt_func as ts_func
    rng = ck.rng
    pieces = ['a', 'b', 'get', 'File', 'HTTP', 'URL', 'v2', 'V2', '2fa', 'X', 'Id', 'id', 'AB', 'ABc', 'aB', 'metadata',
              'List', 'x1', 'IOError2', '_', '__', '/', '-', 'Z', 'q', '9']
    items = []
    for _ in range(ck.scale(1500, 12000)):
        name = ''.join(rng.choice(pieces) for _ in range(rng.randint(1, 5)))
        if not name.strip('_-/'):
            name += 'a'
        items.append([name, rng.choice((1, 1, 2, 3, 10))])
    rep = ck.driver([{'op': 'decl.js.names', 'items': items}])[0]
    for (name, ver), m in zip(items, rep.get('out', [])):
        ck.case(('name', name, ver), True)
        real = [fmt_camel(name), fmt_pascal(name), js_func(name, ver)]
        if real == m and ts_func(name, ver) == m[2]:
            ck.agree('decl.js.names')
        else:
            ck.disagree('decl.js.names', {'name': name, 'version': ver}, real, m)
        want = [x_camel(name), x_pascal(name)]
        if real[:2] != want:
            ck.failing_input('fmt_camel / fmt_pascal of %r give %s, the word rules give %s' % (name, real[:2], want),
                             {'kind': 'names', 'fn': 'fmt_camel/fmt_pascal'}, {'suite': 'names', 'name': name})
        if fmt_url('ns', name, ver) != x_url('ns', name, ver):
            ck.failing_input('fmt_url(ns, %r, %d) = %s' % (name, ver, fmt_url('ns', name, ver)),
                             {'kind': 'names', 'fn': 'fmt_url'}, {'suite': 'names', 'name': name, 'version': ver})


def corpus_specs(prop='C16'):
    import glob
    out = []
    for path in sorted(glob.glob(os.path.join(core.VERIF, 'corpus', prop, '*.json'))):
        rec = json.load(open(path))
        case = rec.get('case', rec)
        if case.get('files'):
            out.append(('corpus/' + os.path.basename(path), [tuple(f) for f in case['files']]))
    return out


def suite_corpus(ck):
    specs = corpus_specs(ck.prop)
    ck.stat('corpus.cases', len(specs))
    if specs:
        run_specs(ck, specs, full=True, syntax_every=1)


def replay(ck, path):
    rec = json.load(open(path))
    case = rec.get('case') or {}
    print('replay of %s: %s' % (path, rec.get('what', rec.get('broken', ''))))
    if not case.get('files'):
        if case.get('suite') == 'names':
            suite_names(ck)
            return 1 if ck.violations else 0
        print(json.dumps(rec, indent=1)[:3000])
        print('(no single failing input recorded: re-run ./check %s)' % ck.prop)
        return 1
    ck.build()
    for p, text in case['files']:
        print('--- %s\n%s' % (p, text))
    run_specs(ck, [('replay', [tuple(f) for f in case['files']])], full=True, syntax_every=1)
    want = json.dumps(rec.get('signature'), sort_keys=True, default=repr)
    still = [v for v in ck.violations if v['key'] == want]
    for v in ck.violations:
        print(' %s %s' % ('SAME   ' if v['key'] == want else 'OTHER  ', v['what']))
    for name, s in ck.suites.items():
        if s['disagreements']:
            print(' model disagreement in %s: %s' % (name, json.dumps(s['first'][:1], default=repr)[:600]))
    print('still failing' if still else 'no longer failing with this signature')
    return 1 if still else 0
