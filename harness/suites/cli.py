"""cli.* correspondence suites and direct oracles (C19).

Three layers are kept apart on purpose:

* the REAL code: `stone.cli_helpers.parse_route_attr_filter` / `FilterExprLexer` and `stone.cli.main`
  run in-process with a capturing backend;
* the MODEL: the compiled Lean definitions of Model/Cli.lean behind the `cli.*` driver ops
  (correspondence: real == model, compared on canonical JSON);
* the REFERENCE: a small evaluator / grammar recogniser / pruning function written in this file from
  the text of the property, reusing none of stone's classes (direct oracle: real == reference wherever
  the property fixes the outcome). Only a reference disagreement is a failing input.

What the reference deliberately leaves open (never judged):
  * `=` / `!=` between a value and a literal of different kinds (Boolean attribute against `1`,
    Int against `1.0`, Bytes against a string literal); only the model, which follows Python's `==`,
    is compared there;
  * string literals containing a backslash: the property does not say what an escape denotes (the
    lexer keeps the body verbatim, so `"a\\"b"` can never equal the attribute value `a"b`);
  * float literals beyond 15 significant digits / |exponent| > 200 and integers >= 2**53 (IEEE rounding);
  * `-f ""`: an empty option value counts as "no filter given" (Python truthiness in cli.main); it is
    recorded as a note, not judged;
  * order of dictionaries; route order is compared with the model (the code preserves it) but the
    oracle compares route lists as multisets.
"""
import contextlib
import io
import itertools
import json
import os
import sys

RULE = ('cli.filter: random filter expression trees (depth <= 4, attributes incl. absent ones, literals of '
        'every kind and spelling, minimal / full / random redundant parentheses, random blanks) evaluated on '
        'all 2^k truth assignments of k<=6 independent atoms and on the product of candidate values per '
        'attribute; token-level edits (delete / duplicate / swap / stray and unbalanced tokens); character '
        'soup for the lexer. cli.prune: generated 2-4 namespace specs through stone.cli.main with a capturing '
        'backend over all subsets of namespaces for -w and -b and all subsets of attributes for -a (plus '
        ':all and unknown names, a name given twice), with and without -f (also empty parentheses); every run draws HOW the '
        'command line says it: short / long / `--opt=value` option spellings, options before or after the '
        'positionals, the spec as files, on stdin (with and without `-`) or as a nested folder with --recursive, -v, '
        'and arguments for the backend behind a `--` that look like selection options. A case is non-trivial when '
        'the expression has a connective / the option set changes what the backend sees.')

KEYWORD_LIKE = {'and', 'or', 'true', 'false', 'null'}
ID_POOL = ['a', 'b', 'c', 'host', 'hide', 'n', 'level', 'flag', 'opt', 'android', 'order', 'nullable', 'true_',
           '_', 'a-b', 'x-1', 'e5', 'or_', 'And', 'OR', 'TRUE', 'Null', 'notnull', 'falsey', 'x_y', 'Z9', 'e', 'a--']
JUNK = ['#', '$', '%', '&', '&&', '||', '*', '+', ',', '/', ':', ';', '<', '>', '?', '@', '[', ']', '^', '{', '}',
        '|', '~', '!', '\t', "'", '.', '-', '=!', '\n']
STR_PIECES = ['a', 'b', 'x y', ' ', 'api', 'content', '(', ')', '=', '!=', 'and', 'or', 'null', '1', '-', '#',
              '\\"', '\\\\', '\\n', '\\t', "'", 'é', '日本', '\n', '\t', 'true']


# ----------------------------------------------------------------------------------------------
# literals
# ----------------------------------------------------------------------------------------------

def enc(v):
    """typed literal encoding of a Python attribute / literal value (protocol of Driver/Cli.lean)"""
    if v is None:
        return {'k': 'null'}
    if isinstance(v, bool):
        return {'k': 'bool', 'v': v}
    if isinstance(v, int):
        return {'k': 'int', 'v': str(v)}
    if isinstance(v, float):
        if v != v or v in (float('inf'), float('-inf')):
            return {'k': 'other'}
        return {'k': 'float', 't': repr(v)}
    if isinstance(v, str):
        return {'k': 'str', 'v': v}
    return {'k': 'other'}


def kind_of(v):
    if v is None:
        return 'null'
    if isinstance(v, bool):
        return 'bool'
    if isinstance(v, int):
        return 'int'
    if isinstance(v, float):
        return 'float'
    if isinstance(v, str):
        return 'str'
    return 'other'


def sig_digits(text):
    """number of significant decimal digits and the decimal exponent of the leading digit"""
    t = text.lstrip('+-')
    mant, _, ex = t.partition('e')
    ip, _, fp = mant.partition('.')
    digits = (ip + fp).lstrip('0')
    lead = len(ip.lstrip('0')) if ip.lstrip('0') else -(len(fp) - len(fp.lstrip('0')))
    e10 = (int(ex) if ex else 0) + lead
    return len(digits.rstrip('0')), e10


def faithful_value(v):
    """Python's == coincides with exact decimal equality for this value (see Model/Cli.lean)"""
    if isinstance(v, bool) or v is None or isinstance(v, str):
        return True
    if isinstance(v, int):
        return abs(v) < 2 ** 53
    if isinstance(v, float):
        if v != v or v in (float('inf'), float('-inf')):
            return False
        if v == 0:
            return True
        n, e10 = sig_digits(repr(v))
        return n <= 15 and -200 <= e10 <= 200
    return True


def faithful_lit(lit):
    if lit['kind'] == 'float':
        n, e10 = sig_digits(lit['text'])
        return n == 0 or (n <= 15 and -200 <= e10 <= 200)
    if lit['kind'] == 'int':
        return abs(lit['value']) < 2 ** 53
    return True


def gen_lit(rng, kind=None, wild=True):
    kind = kind or rng.choice(['null', 'bool', 'int', 'int', 'float', 'float', 'str', 'str'])
    if kind == 'null':
        return {'kind': 'null', 'text': 'null', 'value': None}
    if kind == 'bool':
        b = rng.random() < 0.5
        return {'kind': 'bool', 'text': 'true' if b else 'false', 'value': b}
    if kind == 'int':
        r = rng.random()
        if r < 0.6:
            text = str(rng.choice([0, 1, 1, 2, 3, 7, 10, 42, 100]))
        elif r < 0.8:
            text = str(rng.randint(0, 10 ** rng.randint(1, 12)))
        elif r < 0.9:
            text = '0' * rng.randint(1, 3) + str(rng.randint(0, 99))
        elif wild and r < 0.95:
            text = str(rng.randint(2 ** 53, 10 ** 25))
        else:
            text = '0'
        if rng.random() < 0.3:
            text = '-' + text
        return {'kind': 'int', 'text': text, 'value': int(text)}
    if kind == 'float':
        ip = rng.choice(['0', '1', '1', '2', '10', '12', '100', '007', str(rng.randint(0, 99999))])
        r = rng.random()
        fp = rng.choice(['', '0', '5', '50', '25', '125', '001', str(rng.randint(0, 999999))])
        ex = rng.choice(['', '', 'e0', 'e1', 'e2', 'e-1', 'e-2', 'e5', 'e-7', 'e15', 'e-0', 'e007'])
        if r < 0.45:
            text = ip + '.' + fp + ex
        elif r < 0.6:
            text = ip + '.' + ex
        elif r < 0.9:
            text = ip + (ex or 'e0')
        elif wild and r < 0.95:
            text = rng.choice(['1e400', '-1e400', '1e-400', '0.1000000000000000055511', '9007199254740993.0',
                               '123456789012345678.0', '1e23', '0.30000000000000004'])
        else:
            text = '0.0'
        if rng.random() < 0.3 and not text.startswith('-'):
            text = '-' + text
        return {'kind': 'float', 'text': text, 'value': float(text)}
    body = ''.join(rng.choice(STR_PIECES) for _ in range(rng.randint(0, 4)))
    return {'kind': 'str', 'text': '"' + body + '"', 'value': body}


def gen_id(rng, pool=None):
    return rng.choice(pool or ID_POOL)


# ----------------------------------------------------------------------------------------------
# expression trees, printing
# ----------------------------------------------------------------------------------------------

def gen_tree(rng, depth, ids, lit_for=None, wild=True):
    """('pred', op, attr, lit) | ('conj', 'and'|'or', lhs, rhs), height <= depth"""
    if depth <= 0 or rng.random() < 0.25:
        attr = gen_id(rng, ids)
        lit = lit_for(rng, attr) if lit_for else gen_lit(rng, wild=wild)
        return ('pred', rng.choice(['=', '=', '!=']), attr, lit)
    return ('conj', rng.choice(['and', 'or']), gen_tree(rng, depth - 1, ids, lit_for, wild),
            gen_tree(rng, depth - 1, ids, lit_for, wild))


def tree_height(t):
    return 0 if t[0] == 'pred' else 1 + max(tree_height(t[2]), tree_height(t[3]))


def tree_atoms(t):
    if t[0] == 'pred':
        return [t]
    return tree_atoms(t[2]) + tree_atoms(t[3])


def tree_json(t):
    """the protocol form of a generator tree (literal sent by its exact text for floats)"""
    if t[0] == 'pred':
        lit = t[3]
        if lit['kind'] == 'float':
            j = {'k': 'float', 't': lit['text']}
        else:
            j = enc(lit['value'])
        return ['pred', t[1], t[2], j]
    return ['conj', t[1], tree_json(t[2]), tree_json(t[3])]


def tok(kind, text, lit=None):
    return {'kind': kind, 'text': text, 'lit': lit}


def tree_tokens(t, rng, style):
    """Tokens of a printed tree. `style`: 'min' = only the parentheses precedence requires (an `or`
    under `and`; a right operand that is the same connective is printed flat, which regroups it -
    harmless, both connectives are associative), 'full' = every operand in parentheses, 'rand' =
    required ones plus random redundant pairs."""
    def wrap(toks):
        return [tok('lpar', '(')] + toks + [tok('rpar', ')')]

    def go(t):
        if t[0] == 'pred':
            toks = [tok('id', t[2]), tok('eq' if t[1] == '=' else 'neq', t[1]), tok('lit', t[3]['text'], t[3])]
        else:
            parts = []
            for child in (t[2], t[3]):
                ct = go(child)
                need = t[1] == 'and' and child[0] == 'conj' and child[1] == 'or'
                # keep the tree shape observable sometimes: parenthesise a same-connective right operand
                if need or style == 'full':
                    ct = wrap(ct)
                parts.append(ct)
            toks = parts[0] + [tok(t[1], t[1])] + parts[1]
        if style == 'rand' and rng.random() < 0.25:
            toks = wrap(toks)
            if rng.random() < 0.2:
                toks = wrap(toks)
        return toks
    return go(t)


WORDY = {'id', 'and', 'or', 'lit', 'word'}


def render(tokens, rng, loose=True):
    """Text of a token list: at least one blank between two word-like tokens and around junk, otherwise
    0-2 blanks."""
    out = []
    if loose and rng.random() < 0.2:
        out.append(' ' * rng.randint(1, 2))
    for i, t in enumerate(tokens):
        if i:
            p = tokens[i - 1]
            must = (p['kind'] in WORDY and t['kind'] in WORDY) or p['kind'] == 'junk' or t['kind'] == 'junk'
            if not loose:
                n = 1
            elif must:
                n = rng.choice([1, 1, 1, 2, 3])
            else:
                n = rng.choice([0, 0, 1, 1, 2])
            out.append(' ' * n)
        out.append(t['text'])
    if loose and rng.random() < 0.2:
        out.append(' ' * rng.randint(1, 2))
    return ''.join(out)


# ----------------------------------------------------------------------------------------------
# REFERENCE: evaluator and recogniser written from the property text
# ----------------------------------------------------------------------------------------------

class Malformed(Exception):
    pass


def drive(ck, reqs):
    """ck.driver with patience: other checks may be relinking the shared driver executable"""
    import time
    last = None
    for attempt in range(6):
        try:
            return ck.driver(reqs)
        except RuntimeError as e:
            last = e
            if 'driver executable missing' not in str(e) and 'driver failed' not in str(e):
                raise
            time.sleep(5 + 5 * attempt)
            if attempt >= 1:
                ck.build()
    raise last


def ref_parse(tokens):
    """Independent recogniser over generator tokens:
        expr := term ('or' term)* ; term := prim ('and' prim)* ; prim := '(' expr ')' | ID ('='|'!=') LITERAL
    Returns the tree, raises Malformed."""
    pos = [0]

    def peek():
        return tokens[pos[0]]['kind'] if pos[0] < len(tokens) else None

    def take(kind):
        if peek() != kind:
            raise Malformed('expected %s at %d' % (kind, pos[0]))
        t = tokens[pos[0]]
        pos[0] += 1
        return t

    def prim():
        if peek() == 'lpar':
            take('lpar')
            e = expr()
            take('rpar')
            return e
        name = take('id')
        if peek() not in ('eq', 'neq'):
            raise Malformed('operator expected at %d' % pos[0])
        op = take(peek())
        lit = take('lit')
        return ('pred', op['text'], name['text'], lit['lit'])

    def term():
        e = prim()
        while peek() == 'and':
            take('and')
            e = ('conj', 'and', e, prim())
        return e

    def expr():
        e = term()
        while peek() == 'or':
            take('or')
            e = ('conj', 'or', e, term())
        return e

    e = expr()
    if pos[0] != len(tokens):
        raise Malformed('trailing token at %d' % pos[0])
    return e


ABSENT = ('absent',)


def ref_atom(op, value, lit):
    """`attr = literal` / `attr != literal` on typed values: True / False / None (not fixed by the property).
    `value` is the attribute's Python value, ABSENT or None both read as null."""
    if value is ABSENT:
        value = None
    lk = lit['kind']
    vk = kind_of(value)
    if lk == 'null' or vk == 'null':
        eq = (lk == 'null' and vk == 'null')
    elif lk != vk or vk == 'other':
        return None
    elif lk == 'str':
        if '\\' in lit['value']:
            return None
        eq = (value == lit['value'])
    elif lk == 'float':
        if not (faithful_lit(lit) and faithful_value(value)):
            return None
        eq = (value == lit['value'])
    elif lk == 'int':
        eq = (value == lit['value'])
    else:
        eq = (value is lit['value'])
    return eq if op == '=' else (not eq)


def ref_eval(t, attrs):
    """three-valued: None when the outcome depends on a comparison the property leaves open"""
    if t[0] == 'pred':
        return ref_atom(t[1], attrs.get(t[2], ABSENT), t[3])
    a = ref_eval(t[2], attrs)
    b = ref_eval(t[3], attrs)
    if t[1] == 'and':
        if a is False or b is False:
            return False
        if a is True and b is True:
            return True
        return None
    if a is True or b is True:
        return True
    if a is False and b is False:
        return False
    return None


# ----------------------------------------------------------------------------------------------
# REAL side helpers
# ----------------------------------------------------------------------------------------------

class _Route:
    """what FilterExpr*.eval needs of an ApiRoute"""
    def __init__(self, attrs):
        self.attrs = attrs


def make_route(attrs):
    from stone.ir.api import ApiRoute
    r = ApiRoute('r', 1, None)
    r.attrs = dict(attrs)
    return r


def real_parse(text):
    """(canonical tree | None, number of errors, the tree object); an exception escaping the real
    parser is returned as error count -1 (with the exception in real_parse.last_exc)"""
    from stone.cli_helpers import parse_route_attr_filter
    try:
        tree, errors = parse_route_attr_filter(text)
    except Exception as e:                      # noqa: broad on purpose, the real code is under test
        real_parse.last_exc = '%s: %s' % (type(e).__name__, e)
        return None, -1, None
    return (canon_real_tree(tree) if (tree is not None and not errors) else None), len(errors), tree


real_parse.last_exc = None


def real_eval(obj, attrs):
    """bool | 'exception:<type>'"""
    try:
        return bool(obj.eval(make_route(attrs)))
    except Exception as e:                      # noqa
        return 'exception:%s' % type(e).__name__


def canon_real_tree(t):
    from stone.cli_helpers import FilterExprPredicate, FilterExprConjunction
    if isinstance(t, FilterExprPredicate):
        return ['pred', t.op, t.lhs, canon_lit_value(t.rhs)]
    if isinstance(t, FilterExprConjunction):
        return ['conj', t.conj, canon_real_tree(t.lhs), canon_real_tree(t.rhs)]
    return ['?', repr(t)]


def canon_lit_value(v):
    k = kind_of(v)
    if k == 'float':
        return ['float', v]          # compared with == (the sign of zero is not observable by ==)
    if k == 'int':
        return ['int', str(v)]
    return [k, v if k in ('bool', 'str') else None]


def canon_model_lit(j):
    k = j['k']
    if k == 'float':
        return ['float', float('%se%s' % (j['m'], j['e']))]
    if k == 'int':
        return ['int', j['v']]
    return [k, j.get('v')]


def canon_model_tree(j):
    if j[0] == 'pred':
        return ['pred', j[1], j[2], canon_model_lit(j[3])]
    return ['conj', j[1], canon_model_tree(j[2]), canon_model_tree(j[3])]


def real_lex(text):
    from stone.cli_helpers import FilterExprLexer
    lx = real_lex.lexer
    if lx is None:
        lx = real_lex.lexer = FilterExprLexer()
    lx.errors = []
    toks = []
    try:
        lx.lexer.input(text)
        while True:
            t = lx.lexer.token()
            if not t:
                break
            toks.append([t.type, canon_lit_value(t.value) if t.type in ('BOOLEAN', 'FLOAT', 'INTEGER', 'NULL', 'STRING')
                         else t.value])
    except Exception as e:                      # noqa
        real_lex.lexer = None
        return [['EXCEPTION', type(e).__name__]], -1
    return toks, len(lx.errors)


real_lex.lexer = None


def canon_model_toks(toks):
    return [[ty, canon_model_lit(v) if isinstance(v, dict) else v] for ty, v in toks]


# ----------------------------------------------------------------------------------------------
# candidate attribute values
# ----------------------------------------------------------------------------------------------

def fresh_value(kind, taken, rng):
    if kind == 'bool':
        return None
    if kind == 'int':
        v = 1000003
        while v in taken:
            v += 1
        return v
    if kind == 'float':
        v = 0.75
        while v in taken:
            v += 1.0
        return v
    if kind == 'str':
        v = 'fresh'
        while v in taken:
            v += '_'
        return v
    return None


def candidates_for(attr, lits, rng, twins=True):
    """values an attribute is given: absent, null, every literal compared with it, one fresh value
    per kind, and cross-kind twins (True for 1, 1.0 for 1 ...) that only the model comparison uses"""
    out = [ABSENT, None]
    vals = []
    for lit in lits:
        if lit['kind'] != 'null':
            vals.append(lit['value'])
    for v in vals:
        if not any(type(v) is type(w) and v == w for w in out if w is not ABSENT and w is not None):
            out.append(v)
    for kind in sorted({l['kind'] for l in lits if l['kind'] != 'null'}):
        if kind == 'bool':
            for b in (True, False):
                if not any(w is b for w in out):
                    out.append(b)
        else:
            out.append(fresh_value(kind, [v for v in vals if kind_of(v) == kind], rng))
    if twins:
        for v in list(vals):
            tw = []
            if isinstance(v, bool):
                tw = [int(v), float(v)]
            elif isinstance(v, int) and abs(v) < 2 ** 53:
                tw = [float(v)] + ([bool(v)] if v in (0, 1) else [])
            elif isinstance(v, float) and abs(v) < 2 ** 53 and v == int(v):
                tw = [int(v)] + ([bool(v)] if v in (0.0, 1.0) else [])
            for w in tw:
                if rng.random() < 0.5 and not any(type(w) is type(x) and w == x for x in out
                                                  if x is not ABSENT and x is not None):
                    out.append(w)
    return out


def routes_for(tree, rng, cap):
    """attribute dictionaries: the whole product of the candidate values per attribute when it has at
    most `cap` elements, else `cap` random draws (plus the empty dictionary)"""
    per = {}
    for a in tree_atoms(tree):
        per.setdefault(a[2], []).append(a[3])
    names = sorted(per)
    cands = [candidates_for(n, per[n], rng) for n in names]
    total = 1
    for c in cands:
        total *= len(c)
    combos = []
    if total <= cap:
        combos = list(itertools.product(*cands))
        full = True
    else:
        combos = [tuple(rng.choice(c) for c in cands) for _ in range(cap - 1)] + [tuple(ABSENT for _ in cands)]
        full = False
    routes = []
    for combo in combos:
        routes.append({n: v for n, v in zip(names, combo) if v is not ABSENT})
    return routes, full


def attrs_json(attrs):
    return [[k, enc(v)] for k, v in attrs.items()]


def attrs_faithful(attrs):
    return all(faithful_value(v) for v in attrs.values())


# ----------------------------------------------------------------------------------------------
# shrinking
# ----------------------------------------------------------------------------------------------

def shrink_tree(tree, fails):
    """smallest subtree-replacement variant of `tree` for which `fails` still holds"""
    changed = True
    while changed and tree[0] == 'conj':
        changed = False
        for cand in (tree[2], tree[3]):
            if fails(cand):
                tree = cand
                changed = True
                break
        if changed:
            continue
        for idx in (2, 3):
            child = tree[idx]
            if child[0] == 'conj':
                for sub in (child[2], child[3]):
                    cand = tree[:idx] + (sub,) + tree[idx + 1:]
                    if fails(cand):
                        tree = cand
                        changed = True
                        break
            if changed:
                break
    return tree


# ----------------------------------------------------------------------------------------------
# suite cli.filter
# ----------------------------------------------------------------------------------------------

def judge_filter_case(text, tree, routes):
    """REAL vs REFERENCE on one well-formed expression. Returns (problems, real_info).
    problems: list of (what, signature, detail)."""
    problems = []
    canon, nerr, obj = real_parse(text)
    info = {'canon': canon, 'nerr': nerr, 'vals': None}
    if nerr == -1:
        problems.append(('the filter parser raises instead of reporting errors',
                         {'site': 'filter', 'kind': 'exception'}, {'text': text, 'exception': real_parse.last_exc}))
        return problems, info
    if nerr or obj is None:
        problems.append(('well-formed filter expression reported as erroneous',
                         {'site': 'filter', 'kind': 'wellformed-rejected'}, {'text': text, 'errors': nerr}))
        return problems, info
    vals = []
    for attrs in routes:
        got = real_eval(obj, attrs)
        vals.append(got)
        want = ref_eval(tree, attrs)
        if want is not None and got != want and len(problems) < 3:
            problems.append(('route %s although its attributes %s the expression' % (
                ('survives', 'do not satisfy') if got else ('is dropped', 'satisfy')),
                {'site': 'filter', 'kind': 'eval-mismatch'},
                {'text': text, 'attrs': attrs_json(attrs), 'real': got, 'expected': want}))
    info['vals'] = vals
    return problems, info


def _report_filter_problem(ck, what, sig, detail, tree, routes, style_rng):
    """shrink the expression (and pick one route), then record the failing input"""
    case = dict(detail)
    case['suite'] = 'cli.filter'
    if tree is not None and 'attrs' in detail:
        bad_attrs = None
        for attrs in routes:
            if attrs_json(attrs) == detail['attrs']:
                bad_attrs = attrs
                break

        def fails(t):
            toks = tree_tokens(t, style_rng, 'min')
            txt = render(toks, style_rng, loose=False)
            c, nerr, obj = real_parse(txt)
            if nerr or obj is None:
                return False
            want = ref_eval(t, bad_attrs)
            return want is not None and real_eval(obj, bad_attrs) != want
        if bad_attrs is not None:
            small = shrink_tree(tree, fails)
            if small is not tree and fails(small):
                txt = render(tree_tokens(small, style_rng, 'min'), style_rng, loose=False)
                used = {a[2] for a in tree_atoms(small)}
                small_attrs = {k: v for k, v in bad_attrs.items() if k in used}
                c, nerr, obj = real_parse(txt)
                case.update({'text': txt, 'attrs': attrs_json(small_attrs),
                             'real': real_eval(obj, small_attrs),
                             'expected': ref_eval(small, small_attrs), 'shrunk_from': detail['text']})
                tree = small
    if tree is not None:
        case['tree'] = tree_json(tree)
    ck.failing_input(what, sig, case)


def suite_filter(ck):
    """well-formed expressions: real tree and evaluation vs model, real evaluation vs reference"""
    rng = ck.rng
    n_general = ck.scale(700, 6000)
    n_assign = ck.scale(250, 2500)
    cap = ck.scale(96, 160)
    cases = []
    # (a) independent atoms: all 2^k truth assignments
    for i in range(n_assign):
        k = rng.randint(1, 6)
        names = ['x%d' % j for j in range(k)]
        counter = [0]

        def build(depth, lo, hi):
            if hi - lo == 1:
                lit = gen_lit(rng, rng.choice(['bool', 'int', 'float', 'str', 'null', 'int', 'str']), wild=False)
                return ('pred', rng.choice(['=', '!=']), names[lo], lit)
            mid = rng.randint(lo + 1, hi - 1)
            return ('conj', rng.choice(['and', 'or']), build(depth + 1, lo, mid), build(depth + 1, mid, hi))
        tree = build(0, 0, k)
        if tree_height(tree) > 4:
            continue
        atoms = tree_atoms(tree)
        routes = []
        for bits in itertools.product([False, True], repeat=k):
            attrs = {}
            for a, want_true in zip(atoms, bits):
                lit = a[3]
                eq_wanted = want_true if a[1] == '=' else not want_true
                if lit['kind'] == 'null':
                    if not eq_wanted:
                        attrs[a[2]] = rng.choice([0, False, '', 'x', 1.5])
                    elif rng.random() < 0.5:
                        attrs[a[2]] = None
                elif eq_wanted:
                    attrs[a[2]] = lit['value']
                else:
                    r = rng.random()
                    if r < 0.3:
                        pass                                   # absent
                    elif r < 0.5:
                        attrs[a[2]] = None
                    elif lit['kind'] == 'bool':
                        attrs[a[2]] = not lit['value']
                    else:
                        attrs[a[2]] = fresh_value(lit['kind'], [lit['value']], rng)
            routes.append(attrs)
        cases.append({'tree': tree, 'routes': routes, 'mode': 'assign', 'full': True, 'k': k})
    # (b) general expressions, shared attributes, product of candidate values
    for i in range(n_general):
        depth = rng.choice([0, 1, 2, 2, 3, 3, 4, 4])
        ids = rng.sample(ID_POOL, rng.randint(1, 4))
        pool = {}

        def lit_for(r, attr):
            # literals of one attribute mostly share a kind so that equalities can hold
            kinds = pool.setdefault(attr, r.choice(['bool', 'int', 'float', 'str', None]))
            if kinds is None or r.random() < 0.25:
                return gen_lit(r)
            if r.random() < 0.15:
                return gen_lit(r, 'null')
            return gen_lit(r, kinds)
        tree = gen_tree(rng, depth, ids, lit_for)
        routes, full = routes_for(tree, rng, cap)
        cases.append({'tree': tree, 'routes': routes, 'mode': 'general', 'full': full, 'k': len(tree_atoms(tree))})

    rep = []
    for lo in range(0, len(cases), 250):            # bounded request batches
        reqs = []
        for c in cases[lo:lo + 250]:
            style = rng.choice(['min', 'min', 'full', 'rand', 'rand'])
            c['style'] = style
            c['tokens'] = tree_tokens(c['tree'], rng, style)
            c['text'] = render(c['tokens'], rng)
            rj = [attrs_json(a) for a in c['routes']]
            reqs.append({'op': 'cli.parse', 'text': c['text']})
            reqs.append({'op': 'cli.eval', 'text': c['text'], 'routes': rj})
            reqs.append({'op': 'cli.evalspec', 'tree': tree_json(c['tree']), 'routes': rj})
        rep.extend(drive(ck, reqs))
    for i, c in enumerate(cases):
        m_parse, m_eval, m_spec = rep[3 * i], rep[3 * i + 1], rep[3 * i + 2]
        tree, text, routes = c['tree'], c['text'], c['routes']
        atoms = tree_atoms(tree)
        ck.case(('filter', text), nontrivial=tree[0] == 'conj')
        ck.hist('cli.filter.height', tree_height(tree))
        ck.hist('cli.filter.atoms', len(atoms))
        ck.hist('cli.filter.style', c['style'])
        ck.hist('cli.filter.routes_per_expr', min(len(routes), 256) // 16 * 16)
        for a in atoms:
            ck.hist('cli.filter.literal_kind', a[3]['kind'])
        ck.stat('cli.filter.%s_exprs' % c['mode'])
        ck.stat('cli.filter.evaluations', len(routes))
        if c['full']:
            ck.stat('cli.filter.exprs_with_exhaustive_assignments')
        problems, info = judge_filter_case(text, tree, routes)
        # correspondence: tree
        m_tree = canon_model_tree(m_parse['tree']) if 'tree' in m_parse else None
        if (info['canon'] is None) != (m_tree is None) or (m_tree is not None and m_tree != info['canon']):
            ck.disagree('cli.filter.parse', text, info['canon'], m_tree)
        else:
            ck.agree('cli.filter.parse')
        # correspondence: evaluation (inside the faithful number domain)
        lits_ok = all(faithful_lit(a[3]) for a in atoms)
        if info['vals'] is not None and 'vals' in m_eval:
            bad = None
            judged = 0
            for attrs, rv, mv in zip(routes, info['vals'], m_eval['vals']):
                if not (lits_ok and attrs_faithful(attrs)):
                    ck.stat('cli.filter.eval_outside_number_domain')
                    continue
                judged += 1
                if rv != mv and bad is None:
                    bad = (attrs_json(attrs), rv, mv)
            if bad:
                ck.disagree('cli.filter.eval', {'text': text, 'attrs': bad[0]}, bad[1], bad[2])
            else:
                ck.agree('cli.filter.eval', max(judged, 1))
        elif (info['vals'] is None) != ('vals' not in m_eval):
            ck.disagree('cli.filter.eval', text, info['vals'] is not None, m_eval)
        # model's evalSpec vs the Python reference (keeps the Lean specification honest)
        if 'vals' in m_spec:
            bad = None
            for attrs, sv in zip(routes, m_spec['vals']):
                want = ref_eval(tree, attrs)
                if not (lits_ok and attrs_faithful(attrs)):
                    continue
                if any('\\' in a[3]['value'] for a in atoms if a[3]['kind'] == 'str'):
                    continue    # the Lean reference has no notion of escapes; the Python one abstains
                if sv != want and bad is None:
                    bad = (attrs_json(attrs), want, sv)
            if bad:
                ck.disagree('cli.filter.evalspec', {'text': text, 'attrs': bad[0]}, bad[1], bad[2])
            else:
                ck.agree('cli.filter.evalspec')
        else:
            ck.disagree('cli.filter.evalspec', text, 'tree', m_spec)
        # direct oracle
        judged = sum(1 for attrs in routes if ref_eval(tree, attrs) is not None)
        ck.stat('cli.filter.oracle_judged', judged)
        ck.stat('cli.filter.oracle_unspecified', len(routes) - judged)
        for what, sig, detail in problems:
            _report_filter_problem(ck, what, sig, detail, tree, routes, rng)
        if len(ck.samples) < 3 and tree[0] == 'conj' and c['mode'] == 'general':
            ck.sample({'filter': text, 'tree': info['canon'], 'routes': len(routes),
                       'kept': sum(info['vals']) if info['vals'] else None})


# ----------------------------------------------------------------------------------------------
# suite cli.malformed (token-level edits) and cli.lex (character soup)
# ----------------------------------------------------------------------------------------------

def edit_tokens(tokens, rng):
    toks = list(tokens)
    kind = rng.choice(['delete', 'delete', 'duplicate', 'swap', 'lpar', 'rpar', 'junk', 'junk', 'doubleop',
                       'upper', 'strayword', 'dropclose', 'emptyparens', 'litfirst'])
    i = rng.randrange(len(toks))
    if kind == 'delete':
        del toks[i]
    elif kind == 'duplicate':
        toks.insert(i, dict(toks[i]))
    elif kind == 'swap' and len(toks) > 1:
        i = rng.randrange(len(toks) - 1)
        toks[i], toks[i + 1] = toks[i + 1], toks[i]
    elif kind == 'lpar':
        toks.insert(i, tok('lpar', '('))
    elif kind == 'rpar':
        toks.insert(rng.randint(0, len(toks)), tok('rpar', ')'))
    elif kind == 'junk':
        toks.insert(rng.randint(0, len(toks)), tok('junk', rng.choice(JUNK)))
    elif kind == 'doubleop':
        ops = [j for j, t in enumerate(toks) if t['kind'] in ('eq', 'neq', 'and', 'or')]
        if ops:
            j = rng.choice(ops)
            toks.insert(j, dict(toks[j]))
    elif kind == 'upper':
        ks = [j for j, t in enumerate(toks) if t['kind'] in ('and', 'or')]
        if ks:
            j = rng.choice(ks)
            toks[j] = tok('id', toks[j]['text'].upper())
    elif kind == 'strayword':
        toks.insert(rng.randint(0, len(toks)), tok('id', gen_id(rng)))
    elif kind == 'dropclose':
        ks = [j for j, t in enumerate(toks) if t['kind'] == 'rpar']
        if ks:
            del toks[rng.choice(ks)]
    elif kind == 'emptyparens':
        j = rng.randint(0, len(toks))
        toks[j:j] = [tok('lpar', '('), tok('rpar', ')')]
    elif kind == 'litfirst':
        ks = [j for j, t in enumerate(toks) if t['kind'] == 'id']
        if ks:
            j = rng.choice(ks)
            toks[j] = tok('lit', '1', {'kind': 'int', 'text': '1', 'value': 1})
    return kind, toks


def judge_edited(text, tokens):
    """REAL vs the independent recogniser on an edited token sequence"""
    problems = []
    try:
        tree = ref_parse(tokens) if tokens else None
        if tree is None:
            raise Malformed('empty')
        wellformed = True
    except Malformed:
        tree = None
        wellformed = False
    canon, nerr, obj = real_parse(text)
    if nerr == -1:
        problems.append(('the filter parser raises instead of reporting errors',
                         {'site': 'filter', 'kind': 'exception'}, {'text': text, 'exception': real_parse.last_exc}))
        return problems, wellformed, tree, canon, nerr, obj
    if not wellformed and nerr == 0:
        problems.append(('malformed filter expression accepted without an error',
                         {'site': 'filter', 'kind': 'malformed-accepted'}, {'text': text}))
    if wellformed and nerr:
        problems.append(('well-formed filter expression reported as erroneous',
                         {'site': 'filter', 'kind': 'wellformed-rejected'}, {'text': text, 'errors': nerr}))
    return problems, wellformed, tree, canon, nerr, obj


def shrink_malformed(tokens, rng):
    """delete tokens while the recogniser still rejects and the real parser still reports nothing"""
    def bad(toks):
        if not toks:
            return False
        try:
            ref_parse(toks)
            return False
        except Malformed:
            pass
        _c, nerr, _o = real_parse(render(toks, rng, loose=False))
        return nerr == 0
    toks = list(tokens)
    changed = True
    while changed:
        changed = False
        for width in (3, 2, 1):
            i = 0
            while i + width <= len(toks):
                cand = toks[:i] + toks[i + width:]
                if bad(cand):
                    toks = cand
                    changed = True
                else:
                    i += 1
    return render(toks, rng, loose=False)


def suite_malformed(ck):
    rng = ck.rng
    n = ck.scale(1500, 20000)
    cases = []
    for i in range(n):
        ids = rng.sample(ID_POOL, rng.randint(1, 3))
        tree = gen_tree(rng, rng.choice([0, 1, 1, 2, 2, 3]), ids, wild=False)
        toks = tree_tokens(tree, rng, rng.choice(['min', 'rand', 'full']))
        ek = []
        for _ in range(rng.choice([1, 1, 1, 2])):
            if not toks:
                break
            kind, toks = edit_tokens(toks, rng)
            ek.append(kind)
        text = render(toks, rng)
        cases.append({'tokens': toks, 'text': text, 'edits': ek})
    # hand-picked classics
    for text, toks in [
        ('a=1 and', [tok('id', 'a'), tok('eq', '='), tok('lit', '1', {'kind': 'int', 'text': '1', 'value': 1}), tok('and', 'and')]),
        ('(', [tok('lpar', '(')]), (')', [tok('rpar', ')')]), ('a', [tok('id', 'a')]), ('a=', [tok('id', 'a'), tok('eq', '=')]),
        ('=1', [tok('eq', '='), tok('lit', '1', {'kind': 'int', 'text': '1', 'value': 1})]),
        (' ', []),
    ]:
        cases.append({'tokens': toks, 'text': text, 'edits': ['hand']})
    reqs = []
    for c in cases:
        reqs.append({'op': 'cli.parse', 'text': c['text']})
    rep = drive(ck, reqs)
    for c, m in zip(cases, rep):
        text = c['text']
        problems, wellformed, tree, canon, nerr, obj = judge_edited(text, c['tokens'])
        ck.case(('malformed', text), nontrivial=not wellformed)
        ck.stat('cli.malformed.%s' % ('still_wellformed' if wellformed else 'malformed'))
        for e in c['edits']:
            ck.hist('cli.malformed.edit', e)
        m_ok = 'tree' in m
        if nerr == -1:
            ck.disagree('cli.malformed.errors', text, 'exception', m)
        elif m_ok != (nerr == 0):
            ck.disagree('cli.malformed.errors', text, nerr, m)
        elif m_ok and canon_model_tree(m['tree']) != canon:
            ck.disagree('cli.malformed.tree', text, canon, canon_model_tree(m['tree']))
        else:
            ck.agree('cli.malformed.errors')
        if wellformed and obj is not None and not nerr:
            # accepted after the edit: must still mean what the recogniser's tree means
            routes, _full = routes_for(tree, rng, 24)
            for attrs in routes:
                want = ref_eval(tree, attrs)
                got = real_eval(obj, attrs)
                if want is not None and want != got:
                    problems.append(('route %s although its attributes %s the expression' % (
                        ('survives', 'do not satisfy') if got else ('is dropped', 'satisfy')),
                        {'site': 'filter', 'kind': 'eval-mismatch'},
                        {'text': text, 'attrs': attrs_json(attrs), 'real': got, 'expected': want}))
                    break
        for what, sig, detail in problems:
            if sig['kind'] == 'malformed-accepted':
                detail = dict(detail, text=shrink_malformed(c['tokens'], rng), shrunk_from=text)
            _report_filter_problem(ck, what, sig, detail, tree, [], rng)
        if not wellformed and len([1 for s in ck.samples if 'malformed' in s]) < 2:
            ck.sample({'malformed': text, 'real_errors': nerr, 'model': m.get('error')})


SOUP = ['true', 'false', 'null', 'and', 'or', 'a', 'b', 'x_', 'e', 'E', '0', '1', '12', '007', '-', '-', '.', '.', 'e', 'e-',
        '"', '"', '\\', '\\"', '!', '=', '!=', '(', ')', ' ', ' ', ' ', '\t', '\n', '_', '#', 'é', "'", '1.5', '1e5', '.5']


def suite_lex(ck):
    """character soup: token stream and error count of the real lexer vs the model (ASCII outside strings)"""
    rng = ck.rng
    n = ck.scale(2500, 40000)
    texts = []
    for i in range(n):
        t = ''.join(rng.choice(SOUP) for _ in range(rng.randint(1, 10)))
        texts.append(t)
    reqs = [{'op': 'cli.lex', 'text': t} for t in texts] + [{'op': 'cli.parse', 'text': t} for t in texts]
    rep = drive(ck, reqs)
    for i, t in enumerate(texts):
        if not ascii_outside_strings(t):
            ck.stat('cli.lex.skipped_non_ascii_outside_string')
            continue
        ck.case(('lex', t), nontrivial=len(t) > 2)
        toks, nerr = real_lex(t)
        m = rep[i]
        mt = canon_model_toks(m['toks'])
        if mt != toks or len(m['errors']) != nerr:
            ck.disagree('cli.lex', t, [toks, nerr], [mt, len(m['errors'])])
        else:
            ck.agree('cli.lex')
        ck.hist('cli.lex.tokens', len(toks))
        ck.hist('cli.lex.errors', nerr)
        canon, perr, _obj = real_parse(t)
        mp = rep[n + i]
        if ('tree' in mp) != (perr == 0) or ('tree' in mp and canon_model_tree(mp['tree']) != canon):
            ck.disagree('cli.lex.parse', t, [canon, perr], mp)
        else:
            ck.agree('cli.lex.parse')


def ascii_outside_strings(t):
    """conservative: the model is claimed for ASCII input; non-ASCII is only allowed strictly inside a
    string literal, which we approximate by 'no non-ASCII at all unless the real lexer puts it in a STRING'"""
    if all(ord(ch) < 128 for ch in t):
        return True
    toks, _ = real_lex(t)
    inside = ''.join(v[1] for ty, v in toks if ty == 'STRING')
    outside = sum(1 for ch in t if ord(ch) >= 128) - sum(1 for ch in inside if ord(ch) >= 128)
    return outside == 0


# ----------------------------------------------------------------------------------------------
# suite cli.prune
# ----------------------------------------------------------------------------------------------

CAPTURE_BACKEND = '''from stone.backend import Backend
CAPTURED = []
class Capture(Backend):
    def generate(self, api):
        CAPTURED.append(api)
'''

FIELD_POOL = ['host', 'auth', 'style', 'n', 'level', 'flag', 'hide', 'ratio', 'opt', 'owner', 'mode', 'data']
VALUES = {
    'bool': ['true', 'false'],
    'int': ['-1', '0', '1', '2', '7'],
    'float': ['0.5', '1.5', '2.0', '-0.25', '1.0'],
    'str': ['"api"', '"content"', '"a b"', '"x"', '""'],
}


def _field_line(rng, nm, kind, union_type):
    ty = {'bool': 'Boolean', 'int': 'Int64', 'float': 'Float64', 'str': 'String', 'nstr': 'String?',
          'nint': 'Int32?', 'union': union_type, 'bytes': 'Bytes'}
    if kind in ('nstr', 'nint'):
        return '    %s %s' % (nm, ty[kind])
    if kind == 'union':
        return '    %s %s = fast' % (nm, ty[kind])
    if kind == 'bytes':
        return '    %s %s = "ab"' % (nm, ty[kind])
    return '    %s %s = %s' % (nm, ty[kind], rng.choice(VALUES[kind]))


def gen_spec(rng, layout=None):
    """files {name: text} of a 2-4 namespace spec with a stone_cfg.Route schema of 2-5 attributes.
    layout: 'flat' (struct Route alone), 'parent-ns' (Route extends a struct of a namespace that also has
    routes), 'parent-common' (… of a namespace `common` without routes), 'grandparent' (two levels in `common`).
    (A parent inside stone_cfg is impossible: only `Route` may be defined there.)
    Returns files, namespace names (as the Api lists them), all fields [(name, kind)] own and inherited."""
    layout = layout or rng.choice(['flat', 'flat', 'parent-ns', 'parent-common', 'parent-common', 'grandparent'])
    nns = rng.randint(2, 4 if layout in ('flat', 'parent-ns') else 3)
    ns_names = ['n%d' % i for i in range(nns)]
    if rng.random() < 0.3:
        ns_names[-1] = 'zeta'
    names = rng.sample(FIELD_POOL, rng.randint(2, 5))
    use_union = rng.random() < 0.3
    fields = []
    for nm in names:
        kind = rng.choice(['bool', 'int', 'float', 'str', 'str', 'nstr', 'nint', 'union' if use_union else 'str',
                           'bytes'])
        fields.append((nm, kind))
    # split into levels: own fields of Route, fields of the parent, fields of the grandparent
    if layout == 'flat':
        own, par, grand = fields, [], []
    else:
        k = rng.randint(1, len(fields))              # at least one inherited attribute
        inh, own = fields[:k], fields[k:]
        if layout == 'grandparent' and len(inh) > 1:
            g = rng.randint(1, len(inh) - 1)
            grand, par = inh[:g], inh[g:]
        else:
            par, grand = inh, []
    parent_ns = {'flat': None, 'parent-ns': rng.choice(ns_names), 'parent-common': 'common',
                 'grandparent': 'common'}[layout]
    union_ns = ns_names[0]
    has_union = any(k == 'union' for _n, k in fields)

    def utype(in_ns):
        return 'Mode' if in_ns == union_ns else '%s.Mode' % union_ns

    cfg = ['namespace stone_cfg', '']
    imports = set()
    if any(k == 'union' for _n, k in own):
        imports.add(union_ns)
    if parent_ns:
        imports.add(parent_ns)
    for imp in sorted(imports):
        cfg.append('import %s' % imp)
    if imports:
        cfg.append('')
    cfg.append('struct Route' + (' extends %s.BaseRoute' % parent_ns if parent_ns else ''))
    for nm, kind in own:
        cfg.append(_field_line(rng, nm, kind, utype('stone_cfg')))
    if not own:
        cfg.append('    "Route attributes are all inherited."')     # a struct without fields needs a body
    files = {'cfg.stone': '\n'.join(cfg) + '\n'}

    def parent_defs(in_ns):
        out = []
        if grand:
            out += ['struct Base0'] + [_field_line(rng, nm, kind, utype(in_ns)) for nm, kind in grand] + ['']
        out += ['struct BaseRoute' + (' extends Base0' if grand else '')]
        out += [_field_line(rng, nm, kind, utype(in_ns)) for nm, kind in par] + ['']
        return out

    for idx, ns in enumerate(ns_names):
        lines = ['namespace %s' % ns, '']
        if ns == parent_ns and ns != union_ns and any(k == 'union' for _n, k in par + grand):
            lines += ['import %s' % union_ns, '']
        if idx == 0 and has_union:
            lines += ['union Mode', '    fast', '    slow', '']
        if ns == parent_ns:
            lines += parent_defs(ns)
        ntypes = rng.randint(1, 3)
        tnames = ['T%d%s' % (idx, chr(65 + j)) for j in range(ntypes)]
        for tn in tnames:
            lines += ['struct %s' % tn, '    f String', '']
        if rng.random() < 0.4:
            lines += ['alias Al%d = %s' % (idx, tnames[0]), '']
        nroutes = rng.choice([0, 1, 2, 3, 3, 4, 5])
        used = set()
        for j in range(nroutes):
            rn = 'r%d' % rng.randint(0, 3)
            ver = rng.choice([1, 1, 1, 2, 3])
            if (rn, ver) in used:
                continue
            used.add((rn, ver))
            arg = rng.choice(tnames + ['Void'])
            lines.append('route %s%s(%s, Void, Void)' % (rn, '' if ver == 1 else ':%d' % ver, arg))
            chosen = [f for f in fields if rng.random() < 0.6]
            if chosen:
                lines.append('    attrs')
                for nm, kind in chosen:
                    if kind in ('nstr', 'nint'):
                        v = rng.choice(VALUES['str' if kind == 'nstr' else 'int'] + ['null'])
                    elif kind == 'union':
                        v = rng.choice(['fast', 'slow'])
                    elif kind == 'bytes':
                        v = rng.choice(['"ab"', '"x"'])
                    else:
                        v = rng.choice(VALUES[kind])
                    lines.append('        %s = %s' % (nm, v))
            lines.append('')
        files['%s.stone' % ns] = '\n'.join(lines) + '\n'
    api_ns = list(ns_names)
    if parent_ns == 'common':
        lines = ['namespace common', '']
        if any(k == 'union' for _n, k in par + grand):
            lines += ['import %s' % union_ns, '']
        lines += parent_defs('common')
        files['common.stone'] = '\n'.join(lines) + '\n'
        api_ns.append('common')
    return files, api_ns, fields


def route_json(r):
    return {'name': r.name, 'version': str(r.version), 'attrs': [[k, enc(v)] for k, v in r.attrs.items()]}


def snapshot(api):
    """what C19 is about, as plain data (dict orders kept; `canon_api` sorts them)"""
    nss = []
    for ns in api.namespaces.values():
        nss.append({
            'name': ns.name,
            'routes': [route_json(r) for r in ns.routes],
            'route_by_name': [[k, route_json(r)] for k, r in ns.route_by_name.items()],
            'routes_by_name': [[k, [[str(v), route_json(r)] for v, r in rv.at_version.items()]]
                               for k, rv in ns.routes_by_name.items()],
            'data_types': ['%s:%s(%s)' % (type(dt).__name__, dt.name, ','.join(f.name for f in dt.fields))
                           for dt in ns.data_types] + ['by_name:' + k for k in sorted(ns.data_type_by_name)],
        })
    own = [f.name for f in api.route_schema.fields]
    return {'namespaces': nss,
            'schema': own,
            'schema_by_name': list(api.route_schema._fields_by_name.keys()),
            # what the schema struct inherits: all_fields minus its own fields
            'schema_inherited': [f.name for f in api.route_schema.all_fields
                                 if not any(f is g for g in api.route_schema.fields)]}


def canon_route(r):
    return {'name': r['name'], 'version': r['version'], 'attrs': sorted(([k, canon_enc(v)] for k, v in r['attrs']),
                                                                       key=lambda p: p[0])}


def canon_enc(j):
    if j['k'] == 'float':
        if 't' in j:
            return ['float', float(j['t'])]
        return ['float', float('%se%s' % (j['m'], j['e']))]
    return [j['k'], j.get('v')]


def canon_api(s):
    return {
        'namespaces': [{
            'name': ns['name'],
            'routes': [canon_route(r) for r in ns['routes']],
            'route_by_name': sorted(([k, canon_route(r)] for k, r in ns['route_by_name']), key=lambda p: p[0]),
            'routes_by_name': sorted(([k, sorted(([v, canon_route(r)] for v, r in vs), key=lambda p: int(p[0]))]
                                      for k, vs in ns['routes_by_name']), key=lambda p: p[0]),
            'data_types': ns['data_types'],
        } for ns in s['namespaces']],
        'schema': s['schema'],
        'schema_by_name': sorted(s['schema_by_name']),
        'schema_inherited': sorted(s.get('schema_inherited', [])),
    }


class PruneEnv:
    """one generated spec on disk + its unpruned Api"""

    def __init__(self, root, files):
        from stone.frontend.frontend import specs_to_ir
        self.root = root
        self.files = files
        os.makedirs(root, exist_ok=True)
        self.paths = []
        for fn, text in files.items():
            p = os.path.join(root, fn)
            with open(p, 'w', encoding='utf-8') as fh:
                fh.write(text)
            self.paths.append(p)
        self.backend = os.path.join(root, 'capture.stoneg.py')
        with open(self.backend, 'w') as fh:
            fh.write(CAPTURE_BACKEND)
        self.out = os.path.join(root, 'out')
        specs = [(p, open(p, encoding='utf-8').read()) for p in self.paths]
        self.api0 = specs_to_ir(specs)
        self.snap0 = snapshot(self.api0)
        # python-valued attrs of the unpruned routes, for the reference
        self.attrs0 = {ns.name: [dict(r.attrs) for r in ns.routes] for ns in self.api0.namespaces.values()}

    LONG = {'w': '--whitelist-namespace-routes', 'b': '--blacklist-namespace-routes', 'a': '--attribute',
            'f': '--filter-by-route-attr'}

    def recursive_dir(self):
        """the same spec files spread over nested folders (with files that are not specs in between), for
        `--recursive`"""
        d = os.path.join(self.root, 'rec')
        if not os.path.isdir(d):
            subs = ['', 'a', os.path.join('a', 'b'), 'c', os.path.join('a', 'b', 'deep')]
            for i, (fn, text) in enumerate(self.files.items()):
                sub = os.path.join(d, subs[i % len(subs)])
                os.makedirs(sub, exist_ok=True)
                with open(os.path.join(sub, fn), 'w', encoding='utf-8') as fh:
                    fh.write(text)
            for decoy in ('notes.txt', os.path.join('a', 'old.stone.bak'), os.path.join('c', 'stone'),
                          os.path.join('a', 'b', 'x.stone.txt')):
                os.makedirs(os.path.dirname(os.path.join(d, decoy)), exist_ok=True)
                with open(os.path.join(d, decoy), 'w', encoding='utf-8') as fh:
                    fh.write('namespace decoy\n\nroute not_a_spec (Void, Void, Void)\n')
        return d

    def argv_for(self, opts):
        """The command line of one run. Besides the options of the property (w, b, a, f) `opts` may say HOW they are
        given: `style` (short | long | long= | mixed), `opts_first` (options before the positionals),
        `via` (files | stdin | stdin- | recursive: how the spec reaches main), `verbose` (number of -v),
        `backend_args` (what follows a `--`: addressed to the backend, never to stone itself)."""
        style = opts.get('style') or 'short'
        count = [0]

        def opt(key, value):
            count[0] += 1
            st = style
            if st == 'mixed':
                st = ['short', 'long', 'long='][count[0] % 3]
            if st == 'long':
                return [self.LONG[key], value]
            if st == 'long=':
                return ['%s=%s' % (self.LONG[key], value)]
            return ['-' + key, value]
        options = []
        for n in opts.get('w', []):
            options += opt('w', n)
        for n in opts.get('b', []):
            options += opt('b', n)
        if opts.get('f') is not None:
            options += opt('f', opts['f'])
        for n in opts.get('a', []):
            options += opt('a', n)
        options += ['-v'] * int(opts.get('verbose') or 0)
        via = opts.get('via') or 'files'
        if via == 'recursive':
            spec_args = [self.recursive_dir(), '--recursive']
        elif via == 'stdin':
            spec_args = []
        elif via == 'stdin-':
            spec_args = ['-']
        else:
            spec_args = list(self.paths)
        positionals = [self.backend, self.out] + spec_args
        argv = ['stone-verif'] + (options + positionals if opts.get('opts_first') else positionals + options)
        if opts.get('backend_args') is not None:
            argv += ['--'] + list(opts['backend_args'])
        return argv

    def run_main(self, opts):
        """stone.cli.main in-process. Returns ('ok', api) | ('exit', code, stderr)"""
        from stone import cli
        argv = self.argv_for(opts)
        old = sys.argv
        old_stdin = sys.stdin
        sys.argv = argv
        err = io.StringIO()
        out = io.StringIO()
        if (opts.get('via') or '').startswith('stdin'):
            # every file starts with its `namespace` line: main splits the stream there
            text = ''.join(open(p, encoding='utf-8').read() for p in self.paths)
            sys.stdin = io.TextIOWrapper(io.BytesIO(text.encode('utf-8')), encoding='utf-8')
        mod = sys.modules.get('capture_stoneg_py')
        if mod is not None:
            del mod.CAPTURED[:]
        try:
            with contextlib.redirect_stderr(err), contextlib.redirect_stdout(out):
                cli.main()
        except SystemExit as e:
            return ('exit', e.code, err.getvalue())
        except Exception as e:                  # noqa: an exception escaping main is neither an Api nor a reported error
            return ('exit', 'exception:%s' % type(e).__name__, '%s\n%s' % (err.getvalue(), e))
        finally:
            sys.argv = old
            sys.stdin = old_stdin
        mod = sys.modules.get('capture_stoneg_py')
        if mod is None or not mod.CAPTURED:
            return ('exit', 'no-capture', err.getvalue())
        return ('ok', mod.CAPTURED[-1])


def tables_consistent_real(ns):
    """the by-name tables of a real namespace are exactly the index of its route list (object identity)"""
    exp1 = {}
    expn = {}
    for r in ns.routes:
        if r.version == 1:
            exp1[r.name] = r
        expn.setdefault(r.name, {})[r.version] = r
    if set(ns.route_by_name) != set(exp1) or any(ns.route_by_name[k] is not v for k, v in exp1.items()):
        return 'route_by_name'
    if set(ns.routes_by_name) != set(expn):
        return 'routes_by_name'
    for k, d in expn.items():
        at = ns.routes_by_name[k].at_version
        if set(at) != set(d) or any(at[v] is not r for v, r in d.items()):
            return 'routes_by_name'
    return None


def ref_prune(env, opts, ftree, fwellformed):
    """REFERENCE, from the property text. Returns 'error' | dict ns-name -> {'routes': [(name, version, attrs-dict)] |
    None (filter outcome open), 'types': [...]} plus 'schema'."""
    snap = env.snap0
    names = [ns['name'] for ns in snap['namespaces']]
    # the attributes of the property are ALL fields of stone_cfg.Route, inherited ones included: every
    # route carries a value for each of them and may set it
    schema = list(snap.get('schema_inherited', [])) + list(snap['schema'])
    w, b, a = opts.get('w', []), opts.get('b', []), opts.get('a', [])
    if any(n not in names for n in w) or any(n not in names for n in b):
        return 'error'
    if any(n != ':all' and n not in schema for n in a):
        return 'error'
    if opts.get('f') and not fwellformed:
        return 'error'
    visible = set(schema) if ':all' in a else set(a)
    out = {'schema': [n for n in snap['schema'] if n in visible],
           'schema_all': [n for n in schema if n in visible], 'ns': {}}
    for ns in snap['namespaces']:
        hidden = (bool(w) and ns['name'] not in w) or ns['name'] in b
        routes = []
        if not hidden:
            for r, attrs in zip(ns['routes'], env.attrs0[ns['name']]):
                keep = True
                if opts.get('f'):
                    keep = ref_eval(ftree, attrs)
                    if keep is None:
                        routes = None
                        break
                if keep:
                    routes.append((r['name'], r['version'],
                                   {k: canon_enc(enc(v)) for k, v in attrs.items() if k in visible}))
        out['ns'][ns['name']] = {'routes': routes, 'types': ns['data_types']}
    return out


def judge_prune(env, opts, ftree, fwellformed, result):
    """REAL vs REFERENCE. Returns list of (what, signature, detail)."""
    problems = []
    want = ref_prune(env, opts, ftree, fwellformed)
    snap = env.snap0
    names = [ns['name'] for ns in snap['namespaces']]
    if want == 'error':
        if result[0] == 'ok':
            w, b, a = opts.get('w', []), opts.get('b', []), opts.get('a', [])
            if any(n not in names for n in w):
                sig = {'site': 'whitelist', 'kind': 'unknown-namespace-ignored'}
            elif any(n not in names for n in b):
                sig = {'site': 'blacklist', 'kind': 'unknown-namespace-ignored'}
            elif opts.get('f') and not fwellformed:
                sig = {'site': 'filter', 'kind': 'malformed-accepted'}
            elif ':all' in a:
                sig = {'site': 'attribute', 'kind': 'unknown-attribute-ignored-with-:all'}
            else:
                sig = {'site': 'attribute', 'kind': 'unknown-attribute-ignored'}
            problems.append(('an unknown name / malformed expression on the command line is ignored instead of '
                             'being reported', sig, {}))
        return problems
    inherited = set(snap.get('schema_inherited', []))
    if result[0] != 'ok':
        if (result[1] == 1 and 'Attribute not defined' in result[2]
                and any(n in inherited for n in opts.get('a', []))):
            problems.append(('an attribute that stone_cfg.Route inherits cannot be selected with -a: it is '
                             'reported as not defined', {'site': 'attribute', 'kind': 'inherited-attribute-rejected'},
                             {'exit': result[1], 'stderr': result[2][-300:]}))
        else:
            problems.append(('a valid command line is rejected', {'site': 'cli', 'kind': 'valid-rejected'},
                             {'exit': result[1], 'stderr': result[2][-300:]}))
        return problems
    api = result[1]
    got_names = list(api.namespaces.keys())
    if sorted(got_names) != sorted(names):
        problems.append(('the set of namespaces changed', {'site': 'namespaces', 'kind': 'changed'},
                         {'got': got_names}))
        return problems
    got_schema = [f.name for f in api.route_schema.fields]
    if sorted(got_schema) != sorted(want['schema']):
        problems.append(('the route schema does not show exactly the attributes selected with -a',
                         {'site': 'attribute', 'kind': 'schema-fields'},
                         {'got': got_schema, 'expected': want['schema']}))
    got_all = [f.name for f in api.route_schema.all_fields]
    extra = sorted(set(got_all) - set(want['schema_all']))
    missing = sorted(set(want['schema_all']) - set(got_all))
    if extra and all(n in inherited for n in extra):
        problems.append(('inherited fields of stone_cfg.Route stay visible in the route schema (all_fields) '
                         'although -a does not select them',
                         {'site': 'attribute', 'kind': 'inherited-schema-field-always-visible'},
                         {'got_all_fields': got_all, 'expected': want['schema_all']}))
    elif extra and sorted(got_schema) == sorted(want['schema']):
        problems.append(('the route schema (all_fields) shows attributes -a does not select',
                         {'site': 'attribute', 'kind': 'schema-all-fields'},
                         {'got_all_fields': got_all, 'expected': want['schema_all']}))
    if missing and sorted(got_schema) == sorted(want['schema']):
        problems.append(('the route schema (all_fields) lacks attributes selected with -a',
                         {'site': 'attribute', 'kind': 'schema-all-fields'},
                         {'got_all_fields': got_all, 'expected': want['schema_all']}))
    if sorted(api.route_schema._fields_by_name) != sorted(got_schema):
        problems.append(('route schema field table out of step with its field list',
                         {'site': 'attribute', 'kind': 'schema-by-name'}, {'got': sorted(api.route_schema._fields_by_name)}))
    for ns in api.namespaces.values():
        exp = want['ns'][ns.name]
        types = ['%s:%s(%s)' % (type(dt).__name__, dt.name, ','.join(f.name for f in dt.fields))
                 for dt in ns.data_types] + ['by_name:' + k for k in sorted(ns.data_type_by_name)]
        if types != exp['types']:
            problems.append(('data types of a namespace changed by route selection',
                             {'site': 'types', 'kind': 'changed'}, {'namespace': ns.name, 'got': types}))
        if exp['routes'] is not None:
            got = sorted((r.name, str(r.version)) for r in ns.routes)
            wanted = sorted((n, v) for n, v, _a in exp['routes'])
            if got != wanted:
                hidden = (bool(opts.get('w')) and ns.name not in opts['w']) or ns.name in opts.get('b', [])
                if opts.get('f') and not hidden:
                    site = 'filter'
                elif opts.get('w'):
                    site = 'whitelist'
                elif opts.get('b'):
                    site = 'blacklist'
                else:
                    site = 'routes'
                problems.append(('namespace %s shows the wrong routes' % ns.name,
                                 {'site': site, 'kind': 'routes'},
                                 {'namespace': ns.name, 'got': got, 'expected': wanted}))
            else:
                expa = {(n, v): at for n, v, at in exp['routes']}
                for r in ns.routes:
                    ga = {k: canon_enc(enc(v)) for k, v in r.attrs.items()}
                    ea = expa[(r.name, str(r.version))]
                    if ga == ea:
                        continue
                    det = {'namespace': ns.name, 'route': r.name, 'got': sorted(ga), 'expected': sorted(ea)}
                    more = sorted(set(ga) - set(ea))
                    less = sorted(set(ea) - set(ga))
                    if more:
                        problems.append(('a route shows attributes that -a does not select',
                                         {'site': 'attribute', 'kind': 'route-attrs-extra'}, det))
                    if less and all(n in inherited for n in less) and ':all' in opts.get('a', []):
                        problems.append(('with -a :all the attributes stone_cfg.Route inherits are removed from '
                                         'every route', {'site': 'attribute', 'kind': 'inherited-attribute-dropped-with-:all'},
                                         det))
                    elif less:
                        problems.append(('a route lacks attributes selected with -a',
                                         {'site': 'attribute', 'kind': 'route-attrs-missing'}, det))
                    if not more and not less:
                        problems.append(('a route attribute changed its value',
                                         {'site': 'attribute', 'kind': 'route-attrs-value'}, det))
                    break
        bad = tables_consistent_real(ns)
        if bad:
            problems.append(('by-name route table %s of namespace %s disagrees with its route list' % (bad, ns.name),
                             {'site': 'tables', 'kind': bad},
                             {'namespace': ns.name, 'routes': [(r.name, r.version) for r in ns.routes],
                              'route_by_name': sorted(ns.route_by_name),
                              'routes_by_name': {k: sorted(v.at_version) for k, v in ns.routes_by_name.items()}}))
    return problems


def subsets(xs):
    for r in range(len(xs) + 1):
        for c in itertools.combinations(xs, r):
            yield list(c)


def gen_spec_filter(rng, env, fields):
    """a filter over the schema's attributes (and an absent one) with literals of the attribute's kind,
    mostly values that occur, so that it selects"""
    kinds = {nm: k for nm, k in fields}

    def lit_for(r, attr):
        k = kinds.get(attr)
        if k is None or r.random() < 0.15:
            return gen_lit(r, 'null')
        base = {'bool': 'bool', 'int': 'int', 'nint': 'int', 'float': 'float', 'str': 'str', 'nstr': 'str'}.get(k)
        if base is None:
            return gen_lit(r, 'null')
        text = r.choice(VALUES[base])
        if base == 'str':
            return {'kind': 'str', 'text': text, 'value': text[1:-1]}
        if base == 'int':
            return {'kind': 'int', 'text': text, 'value': int(text)}
        if base == 'float':
            return {'kind': 'float', 'text': text, 'value': float(text)}
        return {'kind': 'bool', 'text': text, 'value': text == 'true'}
    ids = [nm for nm, _k in fields] + ['absent_attr']
    tree = gen_tree(rng, rng.choice([0, 1, 1, 2, 3]), ids, lit_for, wild=False)
    text = render(tree_tokens(tree, rng, rng.choice(['min', 'rand'])), rng)
    return tree, text


def plan_runs(rng, env, ns_names, fields):
    """option sets for one spec: all subsets for -w, for -b, for -a (+ :all, unknown names), with
    random companions"""
    schema = [nm for nm, _k in fields]
    inherited = set(env.snap0.get('schema_inherited', []))
    own = [n for n in schema if n not in inherited]
    runs = []

    def companion_a():
        # mostly own attributes: selecting an inherited one is refused by the unchanged code (a listed
        # finding) and would keep the other options of the run from being exercised
        r = rng.random()
        if r < 0.3:
            return []
        if r < 0.45:
            return [':all']
        pool = own if (own and rng.random() < 0.8) else schema
        return rng.sample(pool, rng.randint(1, len(pool)))

    def companion_f():
        if rng.random() < 0.5:
            return None
        return gen_spec_filter(rng, env, fields)

    def companion_ns():
        r = rng.random()
        sub = rng.sample(ns_names, rng.randint(1, len(ns_names)))
        if r < 0.5:
            return {}
        if r < 0.75:
            return {'w': sub}
        return {'b': sub}

    def add(kind, w=(), b=(), a=(), f=None):
        runs.append({'plan': kind, 'w': list(w), 'b': list(b), 'a': list(a),
                     'f': f[1] if f else None, 'ftree': f[0] if f else None, 'fwell': True})

    for sub in subsets(ns_names):
        if sub:
            rng.shuffle(sub)
            add('w-subset', w=sub, a=companion_a(), f=companion_f())
            add('b-subset', b=sub, a=companion_a(), f=companion_f())
    for which in ('w', 'b'):
        for _ in range(2):
            sub = rng.sample(ns_names, rng.randint(0, len(ns_names)))
            sub.insert(rng.randint(0, len(sub)), rng.choice(['nope', 'stone_cfg', 'N0', 'n', '']))
            add(which + '-unknown', a=companion_a(), f=companion_f(), **{which: sub})
    for sub in subsets(schema):
        rng.shuffle(sub)
        add('a-subset', a=sub, f=companion_f() if rng.random() < 0.4 else None, **companion_ns())
    add('a-all', a=[':all'], f=companion_f(), **companion_ns())
    add('a-all+subset', a=[':all'] + rng.sample(schema, rng.randint(1, len(schema))), **companion_ns())
    for _ in range(3):
        sub = rng.sample(schema, rng.randint(0, len(schema)))
        sub.insert(rng.randint(0, len(sub)), rng.choice(['bogus', 'Host', ':All', 'all', 'name', 'version']))
        add('a-unknown', a=sub, f=companion_f() if rng.random() < 0.3 else None, **companion_ns())
    add('a-all+unknown', a=rng.sample([':all', 'bogus'], 2), **companion_ns())
    for _ in range(3):
        add('f-only', f=gen_spec_filter(rng, env, fields), a=companion_a())
    # malformed filter through main
    tree, text = gen_spec_filter(rng, env, fields)
    toks = tree_tokens(tree, rng, 'min')
    for _ in range(3):
        _k, toks2 = edit_tokens(toks, rng)
        try:
            t2 = ref_parse(toks2) if toks2 else None
            well = t2 is not None
        except Malformed:
            t2, well = None, False
        txt = render(toks2, rng)
        if txt.strip() == '':
            continue
        runs.append({'plan': 'f-edited', 'w': [], 'b': [], 'a': companion_a(), 'f': txt, 'ftree': t2, 'fwell': well})
        break
    runs.append({'plan': 'f-empty', 'w': [], 'b': [], 'a': [], 'f': '', 'ftree': None, 'fwell': True})
    runs.append({'plan': 'f-blank', 'w': [], 'b': [], 'a': companion_a(), 'f': rng.choice(['()', '( )', '(())']),
                 'ftree': None, 'fwell': False})
    runs.append({'plan': 'none', 'w': [], 'b': [], 'a': [], 'f': None, 'ftree': None, 'fwell': True})
    # HOW the command line says it (never WHAT it selects): option spelling and position, the way the spec reaches
    # main, verbosity, arguments addressed to the backend behind a `--`, a name given twice
    for run in runs:
        r = rng.random()
        run['via'] = 'files' if r < 0.64 else ('stdin' if r < 0.74 else ('stdin-' if r < 0.82 else 'recursive'))
        run['style'] = rng.choice(['short', 'short', 'short', 'long', 'long=', 'mixed'])
        run['opts_first'] = rng.random() < 0.25
        run['verbose'] = 1 if rng.random() < 0.1 else 0
        other_ns = rng.choice(ns_names)
        run['backend_args'] = rng.choice([None, None, None, None, [], ['x'], ['-w', other_ns], ['-b', other_ns],
                                          ['-a', rng.choice(schema)], ['-f', 'nope((', '-a', ':all'],
                                          ['--attribute', 'bogus', '-w', 'nope']])
        if rng.random() < 0.12:
            key = rng.choice(['w', 'b', 'a'])
            if run[key]:
                run[key] = list(run[key])
                run[key].insert(rng.randint(0, len(run[key])), rng.choice(run[key]))
                run['plan'] += '+dup'
    return runs


HOW_KEYS = ('via', 'style', 'opts_first', 'verbose', 'backend_args')
HOW_PLAIN = {'via': 'files', 'style': 'short', 'opts_first': False, 'verbose': 0, 'backend_args': None}


def opts_of(run):
    o = {'w': run['w'], 'b': run['b'], 'a': run['a'], 'f': run['f']}
    for k in HOW_KEYS:
        if k in run and run[k] != HOW_PLAIN[k]:
            o[k] = run[k]
    return o


def model_opts(opts):
    """what the model is asked: the selection itself (its command line has one spelling)"""
    return {k: opts.get(k, [] if k != 'f' else None) for k in ('w', 'b', 'a', 'f')}


def by_name(canon):
    """namespaces in name order: `--recursive` hands the files over in path order, which is not the order of the
    reference run"""
    return dict(canon, namespaces=sorted(canon['namespaces'], key=lambda ns: ns['name']))


def canon_model_api(j):
    return canon_api(j)


def shrink_opts(env, run, sig):
    """drop option components while the same failure signature persists"""
    cur = dict(run)

    def still(r):
        res = env.run_main(opts_of(r))
        return any(s == sig for _w, s, _d in judge_prune(env, opts_of(r), r['ftree'], r['fwell'], res))
    for key in HOW_KEYS:
        if cur.get(key, HOW_PLAIN[key]) != HOW_PLAIN[key]:
            cand = dict(cur)
            cand[key] = HOW_PLAIN[key]
            if still(cand):
                cur = cand
    for key in ('f', 'w', 'b', 'a'):
        if key == 'f':
            if cur['f'] is not None:
                cand = dict(cur, f=None, ftree=None, fwell=True)
                if still(cand):
                    cur = cand
        else:
            i = 0
            while i < len(cur[key]):
                cand = dict(cur)
                cand[key] = cur[key][:i] + cur[key][i + 1:]
                if still(cand):
                    cur = cand
                else:
                    i += 1
    return cur


_shrink_counter = [0]


def shrink_files(root, env, run, sig):
    """drop whole namespace files (not named in the options, not needed by the schema) and routes'
    neighbours while the same failure persists; returns the smallest PruneEnv found"""
    cur = env
    named = set(run['w']) | set(run['b'])
    for fn in sorted(env.files):
        if fn == 'cfg.stone' or fn[:-6] in named:
            continue
        files = {k: v for k, v in cur.files.items() if k != fn}
        if len(files) < 2:
            break
        _shrink_counter[0] += 1
        try:
            cand = PruneEnv(os.path.join(root, 'shrink%d' % _shrink_counter[0]), files)
            res = cand.run_main(opts_of(run))
            if any(s == sig for _w, s, _d in judge_prune(cand, opts_of(run), run['ftree'], run['fwell'], res)):
                cur = cand
        except Exception:                       # the spec no longer compiles without that file
            continue
    return cur


def suite_prune(ck):
    from harness import core
    rng = ck.rng
    nspecs = ck.scale(9, 110)
    root = core.scratch('stone-verif-c19-')
    reqs = []
    pending = []
    seen_sigs = set()
    for si in range(nspecs):
        files, ns_names, fields = gen_spec(rng)
        try:
            env = PruneEnv(os.path.join(root, 's%d' % si), files)
        except Exception as e:                      # generator bug, not a finding
            ck.stat('cli.prune.spec_rejected')
            ck.note('generated spec rejected by the frontend: %r' % (e,))
            continue
        ck.hist('cli.prune.namespaces', len(ns_names))
        ck.hist('cli.prune.schema_fields', len(fields))
        ck.hist('cli.prune.inherited_schema_fields', len(env.snap0['schema_inherited']))
        ck.hist('cli.prune.routes_total', sum(len(ns['routes']) for ns in env.snap0['namespaces']))
        for run in plan_runs(rng, env, ns_names, fields):
            opts = opts_of(run)
            result = env.run_main(opts)
            ck.stat('cli.prune.runs')
            ck.hist('cli.prune.plan', run['plan'])
            real = ({'api': by_name(canon_api(snapshot(result[1])))} if result[0] == 'ok' else {'error': True})
            changed = result[0] != 'ok' or real['api'] != by_name(canon_api(env.snap0))
            for k in HOW_KEYS:
                ck.hist('cli.prune.how.%s' % k, json.dumps(run[k]) if k == 'backend_args' else run[k])
            ck.case(('prune', si, json.dumps(opts, sort_keys=True)), nontrivial=changed)
            ck.hist('cli.prune.outcome', 'api' if result[0] == 'ok' else 'exit-%s' % result[1])
            problems = judge_prune(env, opts, run['ftree'], run['fwell'], result)
            if opts['f'] == '':
                ck.stat('cli.prune.empty_filter_text_treated_as_no_filter')
            for what, sig, detail in problems:
                key = json.dumps(sig, sort_keys=True)
                if key in seen_sigs:
                    continue
                seen_sigs.add(key)
                small = shrink_opts(env, run, sig)
                senv = shrink_files(root, env, small, sig)
                res2 = senv.run_main(opts_of(small))
                p2 = [p for p in judge_prune(senv, opts_of(small), small['ftree'], small['fwell'], res2) if p[1] == sig]
                d2 = p2[0][2] if p2 else detail
                what = p2[0][0] if p2 else what
                case = {'suite': 'cli.prune', 'files': senv.files, 'opts': opts_of(small), 'detail': d2,
                        'filter_wellformed': small['fwell'],
                        'filter_tree': tree_json(small['ftree']) if small['ftree'] else None}
                ck.failing_input(what, sig, case)
            reqs.append({'op': 'cli.prune', 'api': env.snap0, 'opts': model_opts(opts)})
            pending.append((si, opts, real, result))
            if len(ck.samples) < 6 and run['plan'] in ('w-subset', 'a-subset') and result[0] == 'ok' and changed:
                ck.sample({'opts': opts, 'routes_seen': {ns['name']: [r['name'] + ':' + r['version'] for r in ns['routes']]
                                                         for ns in real['api']['namespaces']},
                           'schema_seen': real['api']['schema']})
    rep = drive(ck, reqs)
    for (si, opts, real, result), m in zip(pending, rep):
        if 'api' in m:
            model = {'api': by_name(canon_model_api(m['api']))}
        elif 'error' in m:
            model = {'error': True}
        else:
            model = m
        if model != real:
            ck.disagree('cli.prune', {'spec': si, 'opts': opts}, _brief(real), _brief(model))
        else:
            ck.agree('cli.prune')
        if 'error' in m and result[0] == 'exit':
            # the kind of error is part of the behaviour the model follows (never the message text)
            kind = m['error']
            text = result[2]
            expect = {'route-filter': 'route filter', 'whitelist-missing': 'Whitelisted namespace missing',
                      'blacklist-missing': 'Blacklisted namespace missing',
                      'attribute-undefined': 'Attribute not defined'}[kind]
            if expect not in text:
                ck.disagree('cli.prune.error_kind', {'spec': si, 'opts': opts}, text[-200:], kind)
            else:
                ck.agree('cli.prune.error_kind')


def _brief(x):
    s = json.dumps(x, sort_keys=True, default=repr)
    return s if len(s) < 1200 else s[:1200] + '…'


# ----------------------------------------------------------------------------------------------
# replay
# ----------------------------------------------------------------------------------------------

def _dec(j):
    """typed literal encoding -> Python value (for replay)"""
    k = j['k']
    if k == 'null':
        return None
    if k == 'bool':
        return j['v']
    if k == 'int':
        return int(j['v'])
    if k == 'float':
        return float(j['t']) if 't' in j else float('%se%s' % (j['m'], j['e']))
    if k == 'str':
        return j['v']
    return object()


def _tree_of_json(j):
    if j[0] == 'pred':
        l = j[3]
        v = _dec(l)
        text = l.get('t') or (json.dumps(v) if l['k'] in ('bool', 'null') else str(v))
        return ('pred', j[1], j[2], {'kind': l['k'], 'text': text, 'value': v})
    return ('conj', j[1], _tree_of_json(j[2]), _tree_of_json(j[3]))


def replay(ck, path):
    """re-run a recorded failing input against the current tree, the model and the reference"""
    from harness import core
    rec = json.load(open(path))
    case = rec.get('case') or {}
    print('replay of %s: %s' % (path, rec.get('what', rec.get('broken', ''))))
    if 'suite' not in case:
        print(json.dumps(rec, indent=1)[:3000])
        print('(no single failing input recorded: re-run ./check %s to re-evaluate the broken obligation)' % ck.prop)
        return 1
    ck.build()
    still = False
    if case['suite'] == 'cli.filter':
        text = case['text']
        canon, nerr, obj = real_parse(text)
        print(' filter text     : %r' % text)
        print(' real            : errors=%d tree=%s' % (nerr, json.dumps(canon, default=repr)))
        m = ck.driver([{'op': 'cli.parse', 'text': text}])[0]
        print(' model           : %s' % json.dumps(m))
        kind = rec['signature'].get('kind')
        if kind == 'malformed-accepted':
            still = nerr == 0
        elif kind == 'wellformed-rejected':
            still = nerr != 0
        elif kind == 'exception':
            still = nerr == -1
        elif 'attrs' in case and obj is not None:
            attrs = {k: _dec(v) for k, v in case['attrs']}
            got = real_eval(obj, attrs)
            want = case.get('expected')
            if case.get('tree'):
                want = ref_eval(_tree_of_json(case['tree']), attrs)
            me = ck.driver([{'op': 'cli.eval', 'text': text, 'routes': [case['attrs']]}])[0]
            print(' route attributes: %s' % json.dumps(case['attrs']))
            print(' real survives   : %s   reference: %s   model: %s' % (got, want, me.get('vals')))
            still = want is not None and got != want
        else:
            still = nerr != 0
    elif case['suite'] == 'cli.prune':
        root = core.scratch('stone-verif-c19-replay-')
        env = PruneEnv(os.path.join(root, 's'), case['files'])
        opts = case['opts']
        ftree = _tree_of_json(case['filter_tree']) if case.get('filter_tree') else None
        res = env.run_main(opts)
        problems = judge_prune(env, opts, ftree, case.get('filter_wellformed', True), res)
        print(' options         : %s' % json.dumps(opts))
        for fn, text in case['files'].items():
            print(' --- %s\n%s' % (fn, text.rstrip()))
        if res[0] == 'ok':
            print(' backend saw     : %s' % _brief(canon_api(snapshot(res[1]))))
        else:
            print(' exit            : %s %s' % (res[1], res[2].strip()[-200:]))
        m = ck.driver([{'op': 'cli.prune', 'api': env.snap0, 'opts': model_opts(opts)}])[0]
        print(' model           : %s' % _brief(m))
        for what, sig, detail in problems:
            print(' FAILS           : %s %s %s' % (what, sig, _brief(detail)))
        still = any(sig == rec['signature'] for _w, sig, _d in problems)
    print('still failing' if still else 'no longer failing')
    return 1 if still else 0
