import json
from gen import build
import stone.backends.python_rsrc.stone_serializers as ss
import stone.backends.python_rsrc.stone_validators as bv
A = '''
namespace ns
struct S
    a String
union U
    x
    y String
    z S
struct R
    union
        p P
    n String
struct P extends R
    q String
struct Top
    s S
    u U
    r R
    l List(U)
'''
B = '''
namespace ns
struct S
    a String
    b String?
    c Int32 = 3
union U
    x S
    y String
    z S
    w Int32
struct R
    union
        p P
        k K
    n String
struct P extends R
    q String
struct K extends R
    kk String
struct Top
    s S
    u U
    r R
    l List(U)
    extra Top2?
struct Top2
    t String
'''
_, ma, _ = build([('a.stone', A)]); _, mb, _ = build([('b.stone', B)])
a, b = ma['ns'], mb['ns']
def tryit(name, f):
    try: print(name, '->', repr(f()))
    except bv.ValidationError as e: print(name, '-> ValidationError', e)
    except BaseException as e: print(name, '-> ESCAPE', type(e).__name__, e)
vb = b.Top(s=b.S(a='A', b='B', c=9), u=b.U.x(b.S(a='q')), r=b.K(n='N', kk='KK'), l=[b.U.w(1), b.U.y('yy'), b.U.x(b.S(a='z'))], extra=b.Top2(t='T'))
jb = ss.json_compat_obj_encode(b.Top_validator, vb)
print(json.dumps(jb))
tryit('A lenient <- B', lambda: ss.json_compat_obj_decode(a.Top_validator, jb, strict=False))
tryit('A strict <- B', lambda: ss.json_compat_obj_decode(a.Top_validator, jb, strict=True))
va = a.Top(s=a.S(a='A'), u=a.U.x, r=a.P(n='N', q='Q'), l=[a.U.x, a.U.z(a.S(a='1'))])
ja = ss.json_compat_obj_encode(a.Top_validator, va); print(json.dumps(ja))
tryit('B strict <- A', lambda: ss.json_compat_obj_decode(b.Top_validator, ja, strict=True))
