from stone.frontend.frontend import specs_to_ir
from stone.frontend.exception import InvalidSpec
def t(name, text):
    try:
        specs_to_ir([('ns.stone', 'namespace ns\n' + text)]); print(name, '-> OK')
    except InvalidSpec as e: print(name, '-> InvalidSpec', e.msg)
    except BaseException as e: print(name, '-> ESCAPE', type(e).__name__, str(e)[:100])
S = 'struct S\n    a String\n    example default\n        a = "x"\n'
t('ns null', S + 'union U\n    ns S?\n    example e3\n        ns = null\n')
t('v null', S + 'union U\n    v\n    example e5\n        v = null\n')
t('list ex', S + 'union U\n    l List(S)\n    example e4\n        l = [default]\n')
t('prim', S + 'union U\n    p Int32\n    example e2\n        p = 5\n')
t('nullable prim null', 'union U\n    p Int32?\n    example e2\n        p = null\n')
t('map in union', 'union U\n    m Map(String, Int32)\n    example e2\n        m = {"a": 1}\n')
t('map of refs in union', S + 'union U\n    m Map(String, S)\n    example e2\n        m = {"a": default}\n')
t('struct ex missing ref', S + 'struct H\n    s S\n    example default\n        s = nope\n')
t('struct ex wrong kind', S + 'struct H\n    s S\n    example default\n        s = 3\n')
t('ex ref for prim', 'struct H\n    s String\n    example default\n        s = nope\n')
t('ex list for prim', 'struct H\n    s String\n    example default\n        s = [1]\n')
t('ex map for list', 'struct H\n    s List(String)\n    example default\n        s = {"a": 1}\n')
t('ex nested list wrong', 'struct H\n    s List(List(String))\n    example default\n        s = ["a"]\n')
t('ex ref in list of prim', 'struct H\n    s List(String)\n    example default\n        s = [foo]\n')
t('ex for tree 2 fields', 'struct R\n    union\n        a A\n    x String\n    example default\n        a = default\n        x = "q"\nstruct A extends R\n    y String\n')
t('ex label dup field', 'struct H\n    s String\n    example default\n        s = "a"\n        s = "b"\n')
t('ex circular', 'struct A\n    b B?\n    example default\n        b = default\nstruct B\n    a A?\n    example default\n        a = default\n')
