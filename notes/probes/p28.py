import ast, os, sys, tempfile, importlib, inspect
from stone.frontend.frontend import specs_to_ir
from stone.compiler import Compiler
import stone.backends.python_types as pt, stone.backends.python_type_stubs as ps
cfg = 'namespace stone_cfg\nstruct Route\n    style String = "rpc"\n'
spec = '''
namespace files
import common
alias Path = String
alias MetaAlias = Meta
alias DT = common.Date
annotation_type Note
    "doc"
    level String = "low"
    n Int32?
annotation Imp = Note(level="hi")
struct Meta
    union
        file FileMeta
        folder FolderMeta
    name String
    path Path?
        @Imp
    tags List(String)?
    m Map(String, List(Int32))?
struct FileMeta extends Meta
    size UInt64 = 3
    when common.Date
    b Bytes
    f Float32
    bo Boolean
struct FolderMeta extends Meta
    "folder"
union WriteMode
    add
    update String
    m Meta
    nm Meta?
    l List(common.Acc)
union_closed Err extends BaseErr
    bad_path
union_closed BaseErr
    x Int64
struct Arg
    path Path
    mode WriteMode = add
    acc common.Acc?
route upload(Arg, Meta, Err)
route get:2(Arg, FileMeta, Void) deprecated
'''
common = 'namespace common\nalias Date = Timestamp("%Y")\nstruct Acc\n    id String\n'
specs = [('cfg.stone', cfg), ('files.stone', spec), ('common.stone', common)]
root = tempfile.mkdtemp(); out = os.path.join(root, 'pk')
Compiler(specs_to_ir(specs), pt, ['-p', 'pk'], out).build()
Compiler(specs_to_ir(specs), ps, ['-p', 'pk'], out).build()
sys.path.insert(0, root)
for nsname in ['files', 'common']:
    mod = importlib.import_module('pk.' + nsname)
    tree = ast.parse(open(os.path.join(out, nsname + '.pyi')).read())
    stub_names = set(); stub_classes = {}
    for node in tree.body:
        if isinstance(node, ast.ClassDef):
            stub_names.add(node.name)
            members = set()
            for b in node.body:
                if isinstance(b, ast.FunctionDef): members.add(b.name)
                elif isinstance(b, ast.AnnAssign): members.add(b.target.id)
            stub_classes[node.name] = (members, [ast.unparse(x) for x in node.bases], {b.name: [a.arg for a in b.args.args] for b in node.body if isinstance(b, ast.FunctionDef)})
        elif isinstance(node, ast.AnnAssign): stub_names.add(node.target.id)
        elif isinstance(node, ast.Assign):
            for t in node.targets: stub_names.add(t.id)
    rt_names = {n for n in vars(mod) if not n.startswith('_') and n not in ('bb', 'bv', 'unicode_literals', 'common', 'files')}
    print(nsname, 'stub-runtime:', sorted(stub_names - rt_names), 'runtime-stub:', sorted(rt_names - stub_names))
    for cname, (members, bases, fns) in stub_classes.items():
        cls = getattr(mod, cname, None)
        if cls is None: continue
        rt_members = {n for n in dir(cls) if not n.startswith('_')}
        sm = {m for m in members if not m.startswith('_')}
        if sm - rt_members or (rt_members - sm):
            print('  ', cname, 'stub-only', sorted(sm - rt_members), 'runtime-only', sorted(rt_members - sm))
        rb = [b.__module__.split('.')[-1] + '.' + b.__name__ if b.__module__ != mod.__name__ else b.__name__ for b in cls.__bases__]
        if '__init__' in fns and '__init__' in vars(cls):
            rp = list(inspect.signature(cls.__init__).parameters)
            if rp != fns['__init__']: print('  ', cname, 'ctor params differ', rp, fns['__init__'])
        print('  ', cname, 'bases', bases, rb)
