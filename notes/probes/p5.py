from stone.frontend.frontend import specs_to_ir
spec = '''
namespace ns
alias AT = T
alias AS = String
struct T
    f String
struct Used
    g String
struct Other
    h AT
route r(Used, Void, Void)
'''
api = specs_to_ir([('ns.stone', spec)], route_whitelist_filter={'route_whitelist': {'ns': ['r']}, 'datatype_whitelist': {}})
ns = api.namespaces['ns']
print('types', [d.name for d in ns.data_types])
print('aliases', [(a.name, a.data_type) for a in ns.aliases])
from gen import build
try:
    api, mods, out = build([('ns.stone', spec)], route_whitelist_filter={'route_whitelist': {'ns': ['r']}, 'datatype_whitelist': {}})
    print('import ok')
except BaseException as e:
    print('ESCAPE', type(e).__name__, e)
