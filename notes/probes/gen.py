import sys, os, importlib, shutil, tempfile, itertools
from stone.frontend.frontend import specs_to_ir
from stone.compiler import Compiler
import stone.backends.python_types as pt
_counter = itertools.count()
def build(specs, pkg=None, **kw):
    """specs: list of (path,text). returns (api, dict ns->module)"""
    api = specs_to_ir(specs, **kw)
    pkg = pkg or 'gen%d' % next(_counter)
    root = tempfile.mkdtemp(prefix='stprobe')
    out = os.path.join(root, pkg)
    c = Compiler(api, pt, ['--package', pkg], out)
    c.build()
    sys.path.insert(0, root)
    mods = {}
    for ns in api.namespaces:
        mods[ns] = importlib.import_module(pkg + '.' + ns)
    return api, mods, out
