"""C18 manifest vs real, C12 in-process history, for all backends"""
import sys, os, tempfile, importlib, shutil, hashlib
from stone.frontend.frontend import specs_to_ir
from stone.compiler import Compiler, BackendException
cfg = 'namespace stone_cfg\nstruct Route\n    host String = "api"\n    style String = "rpc"\n    auth String = "user"\n    is_preview Boolean = false\n    scope String?\n'
A = '''
namespace files
import common
alias Path = String(pattern="/.*")
struct Meta
    union
        file FileMeta
        folder FolderMeta
    name String
    path Path?
struct FileMeta extends Meta
    size UInt64
    when common.Date
struct FolderMeta extends Meta
    "folder"
union WriteMode
    add
    update String
    m Meta
struct Arg
    path Path
    mode WriteMode = add
    acc common.Acc?
union_closed Err
    bad_path
route upload(Arg, Meta, Err)
    attrs
        style = "upload"
route get:2(Arg, FileMeta, Void) deprecated
'''
C = 'namespace common\nalias Date = Timestamp("%Y-%m-%dT%H:%M:%SZ")\nstruct Acc\n    id String\n'
B = 'namespace other\nstruct Meta\n    zzz Int32\nstruct Acc\n    q String\nunion X\n    a\nroute ping(Meta, Acc, X)\n'
specsA = [('cfg.stone', cfg), ('files.stone', A), ('common.stone', C)]
specsB = [('cfg.stone', cfg), ('other.stone', B)]
sw = ['-m', 'Mod', '-c', 'Client', '-t', 'Transport', '-y', '{}', '-z', '{"rpc":"RpcRequest","upload":"UploadRequest","download":"DownloadRequest"}']
backends = [('python_types', ['-p','pk'],0), ('python_type_stubs', ['-p','pk'],0), ('python_client', ['-m','base','-c','Base','-t','pk'],0),
 ('js_client', ['r.js'],0), ('js_types', ['t.js'],0), ('tsd_types', ['t.template','t.d.ts'],1), ('tsd_client', ['t.template','c.d.ts'],1),
 ('swift_types', [],0), ('swift_types', ['--objc'],0), ('swift_client', sw,0), ('swift_client', sw+['--objc'],0), ('obj_c_types', [],0), ('obj_c_client', sw,0)]
def tree(root):
    out = {}
    for d, _, fs in os.walk(root):
        for f in fs:
            p = os.path.join(d, f); out[os.path.relpath(p, root)] = hashlib.md5(open(p,'rb').read()).hexdigest()
    return out
def run(backend, args, specs, tmpl, manifest=False):
    api = specs_to_ir(specs)
    mod = importlib.import_module('stone.backends.' + backend)
    root = tempfile.mkdtemp()
    if tmpl: open(os.path.join(root, 't.template'), 'w').write('/*TYPES*/\n/*ROUTES*/\n')
    c = Compiler(api, mod, args, root, output_manifest=manifest)
    c.build()
    t = tree(root); m = c.output_manifest()
    shutil.rmtree(root)
    return t, m
for b, args, tmpl in backends:
    try:
        t1, _ = run(b, args, specsA, tmpl)
        tm, m = run(b, args, specsA, tmpl, manifest=True)
        real = sorted(k for k in t1 if k != 't.template'); created = sorted(k for k in tm if k != 't.template')
        ok_manifest = (sorted(m) == real) and created == []
        # history: run B, then A again
        run(b, args, specsB, tmpl)
        t2, _ = run(b, args, specsA, tmpl)
        print('%-18s %-8s manifest=%s%s history_same=%s' % (b, (args[:1] or [''])[0][:8], ok_manifest, '' if ok_manifest else ' (manifest-real=%s real-manifest=%s created=%s)' % (sorted(set(m)-set(real)), sorted(set(real)-set(m)), created), t1 == t2))
        if t1 != t2:
            print('   differing:', [k for k in t1 if t1.get(k) != t2.get(k)][:5])
    except BackendException as e:
        print(b, 'BackendException', e.traceback.strip().splitlines()[-1][:200])
