import sys
from gen import build
spec = 'namespace a\nalias X = List(X)\nstruct S\n    f X\n'
try:
    api, mods, out = build([('a.stone', spec)])
    print('import ok')
except BaseException as e:
    print('ESCAPE', type(e).__name__, e)
