namespace Fmt

def escape : List Char → List Char
  | [] => []
  | '{' :: cs => '{' :: '{' :: escape cs
  | '}' :: cs => '}' :: '}' :: escape cs
  | c :: cs => c :: escape cs

/-- the subset of str.format: `{{` `}}` literal braces, `{name}` named field (name = identifier chars),
    lone `}` or unterminated `{` is an error -/
def takeName : List Char → List Char → Option (List Char × List Char)
  | acc, '}' :: cs => some (acc.reverse, cs)
  | _, '{' :: _ => none
  | acc, c :: cs => takeName (c :: acc) cs
  | _, [] => none

theorem takeName_length : ∀ acc cs n r, takeName acc cs = some (n, r) → r.length < cs.length := by
  intro acc cs
  induction cs generalizing acc with
  | nil => intro n r h; simp [takeName] at h
  | cons c cs ih =>
    intro n r h
    by_cases h1 : c = '}'
    · subst h1; simp [takeName] at h; obtain ⟨_, rfl⟩ := h; simp
    · by_cases h2 : c = '{'
      · subst h2; simp [takeName] at h
      · rw [takeName] at h
        · have := ih _ _ _ h; simp; omega
        · exact h1
        · exact h2

def pyFormat (env : List Char → Option (List Char)) : List Char → Option (List Char)
  | [] => some []
  | '{' :: '{' :: cs => (pyFormat env cs).map ('{' :: ·)
  | '}' :: '}' :: cs => (pyFormat env cs).map ('}' :: ·)
  | '{' :: cs =>
    match h : takeName [] cs with
    | some (n, rest) =>
      have : rest.length < cs.length := takeName_length _ _ _ _ h
      match env n, pyFormat env rest with
      | some v, some r => some (v ++ r)
      | _, _ => none
    | none => none
  | '}' :: _ => none
  | c :: cs => (pyFormat env cs).map (c :: ·)
termination_by cs => cs.length
decreasing_by all_goals simp_wf <;> omega

theorem format_escape (env) (s : List Char) : pyFormat env (escape s) = some s := by
  induction s with
  | nil => simp [escape, pyFormat]
  | cons c cs ih =>
    by_cases h1 : c = '{'
    · subst h1; simp [escape, pyFormat, ih]
    · by_cases h2 : c = '}'
      · subst h2; simp [escape, pyFormat, ih]
      · rw [escape]
        · rw [pyFormat]
          · simp [ih]
          all_goals simp_all
        all_goals simp_all

#print axioms format_escape
end Fmt
