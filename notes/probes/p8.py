from stone.frontend.frontend import specs_to_ir
from stone.backend import remove_aliases_from_api
api = specs_to_ir([('a.stone', 'namespace a\nalias X = List(X)\nstruct S\n    f X\n')])
remove_aliases_from_api(api)
print('done')
