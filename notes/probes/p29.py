import os, tempfile, re
from stone.frontend.frontend import specs_to_ir
from stone.compiler import Compiler
import stone.backends.tsd_types as tt, stone.backends.tsd_client as tc, stone.backends.js_types as jt, stone.backends.js_client as jc
cfg = 'namespace stone_cfg\nstruct Route\n    style String = "rpc"\n    host String = "api"\n'
spec = open('/tmp/probe/p28.py').read().split("spec = '''")[1].split("'''")[0].replace('    class\n','').replace('    for String?\n','')
common = 'namespace common\nalias Date = Timestamp("%Y")\nstruct Acc\n    id String\n'
specs = [('cfg.stone', cfg), ('files.stone', spec), ('common.stone', common)]
root = tempfile.mkdtemp()
open(os.path.join(root, 't.template'), 'w').write('/*TYPES*/\n/*ROUTES*/\n')
Compiler(specs_to_ir(specs), tt, ['t.template', 'types.d.ts'], root).build()
Compiler(specs_to_ir(specs), tc, ['t.template', 'client.d.ts'], root).build()
Compiler(specs_to_ir(specs), jt, ['types.js'], root).build()
Compiler(specs_to_ir(specs), jc, ['routes.js'], root).build()
txt = open(os.path.join(root, 'types.d.ts')).read()
print(txt[:3000])
print('-----client')
print(open(os.path.join(root, 'client.d.ts')).read()[:1200])
print('-----js')
print(open(os.path.join(root, 'routes.js')).read()[:900])
os.system('node --check %s; echo node=$?' % os.path.join(root, 'routes.js'))
