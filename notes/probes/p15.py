import itertools, json, random
from stone.frontend.frontend import specs_to_ir
from stone.frontend.exception import InvalidSpec
from irdump import dump
cfg = 'namespace stone_cfg\nstruct Route\n    host String = "api"\n    style String = "rpc"\n    u files.WriteMode = add\nimport files\n'
cfg = 'namespace stone_cfg\n\nimport files\n\nstruct Route\n    host String = "api"\n    style String = "rpc"\n    u files.WriteMode = add\n'
defs_files = [
'alias Path = String(pattern="/.*")\n    "a path"\n',
'struct Meta\n    "Metadata. :type:`FileMeta` :field:`name`"\n    union\n        file FileMeta\n        folder FolderMeta\n    name String\n    path Path?\n    example default\n        file = default\n',
'struct FileMeta extends Meta\n    size UInt64\n    when common.Date\n    example default\n        name = "n"\n        size = 3\n        when = "2000-01-01T00:00:00Z"\n',
'struct FolderMeta extends Meta\n    "folder"\n',
'union WriteMode\n    add\n    overwrite\n    update String\n    m Meta\n    fm FileMeta?\n',
'union_closed Err extends BaseErr\n    bad_path\n',
'union_closed BaseErr\n    other_err String\n',
'struct Arg\n    path Path\n    mode WriteMode = add\n    mute Boolean = false\n    acc common.Acc?\n',
'route upload(Arg, Meta, Err)\n    "Upload. :route:`get:2`"\n    attrs\n        style = "upload"\n        u = overwrite\n',
'route get:2(Arg, FileMeta, Void) deprecated\n',
'route list(Void, List(Meta), Err) deprecated by get:2\n',
]
common = 'namespace common\nalias Date = Timestamp("%Y-%m-%dT%H:%M:%SZ")\nstruct Acc\n    id String(min_length=1, max_length=40)\n    n Int32(min_value=-5, max_value=5) = 0\n'
def files_text(defs): return 'namespace files\n    "doc"\nimport common\n\n' + '\n'.join(defs)
def comp(specs):
    try: return ('ok', json.dumps(dump(specs_to_ir(specs)), sort_keys=True))
    except InvalidSpec as e: return ('invalid', e.msg)
    except BaseException as e: return ('ESCAPE', type(e).__name__ + str(e))
ref = comp([('cfg.stone', cfg), ('files.stone', files_text(defs_files)), ('common.stone', common)])
print(ref[0], len(ref[1]))
rng = random.Random(1)
bad = 0
for trial in range(300):
    d = defs_files[:]; rng.shuffle(d)
    k = rng.randint(1, 4)
    cuts = sorted(rng.sample(range(1, len(d)), k-1)) if k > 1 else []
    parts = [d[i:j] for i, j in zip([0]+cuts, cuts+[len(d)])]
    specs = [('cfg.stone', cfg), ('common.stone', common)]
    for i, p in enumerate(parts):
        hdr = 'namespace files\n' + ('    "doc"\n' if i == 0 else '') + 'import common\n\n'
        specs.append(('files%d.stone' % i, hdr + '\n'.join(p)))
    # keep file with doc first among files-namespace files? shuffle all
    first = specs[2]; rest = specs[:2] + specs[3:]; rng.shuffle(rest)
    pos = rng.randint(0, len(rest)); 
    specs2 = rest[:pos] + [first] + rest[pos:]
    r = comp(specs2)
    if r != ref:
        bad += 1
        if bad <= 5:
            print('DIFF trial', trial, r[0], r[1][:300] if r[0] != 'ok' else '')
            if r[0] == 'ok':
                a, b = json.loads(ref[1]), json.loads(r[1])
                for ns in a:
                    for k2 in a[ns]:
                        if a[ns][k2] != b[ns][k2]: print('  ', ns, k2, str(a[ns][k2])[:200], '||', str(b[ns][k2])[:200])
print('bad', bad)
