from stone.frontend.frontend import specs_to_ir
from stone.frontend.exception import InvalidSpec
def t(name, specs, **kw):
    try:
        api = specs_to_ir(specs, **kw)
        print(name, '-> OK')
        return api
    except InvalidSpec as e:
        print(name, '-> InvalidSpec', e.msg, e.lineno, e.path)
    except BaseException as e:
        print(name, '-> ESCAPE', type(e).__name__, e)
a = 'namespace ns\nstruct S\n    a String\n'
p1 = 'namespace ns\npatch struct S\n    b String\n'
p2 = 'namespace ns\npatch struct S\n    c String\n'
api = t('two patches', [('a.stone', a), ('p1.stone', p1), ('p2.stone', p2)])
print([f.name for f in api.namespaces['ns'].data_type_by_name['S'].fields])
api = t('two patches rev', [('p2.stone', p2), ('p1.stone', p1), ('a.stone', a)])
print([f.name for f in api.namespaces['ns'].data_type_by_name['S'].fields])
# patch across canonical names (S_ vs S)
api = t('patch canonical', [('a.stone', 'namespace ns\nstruct S_x\n    a String\n'), ('p.stone', 'namespace ns\npatch struct Sx\n    b String\n')])
if api: print([ (d.name,[f.name for f in d.fields]) for d in api.namespaces['ns'].data_types])
# name clash canonical: struct FooBar and alias foo_bar
t('canon clash', [('a.stone', 'namespace ns\nstruct FooBar\n    a String\nstruct Foo_Bar\n    b String\n')])
# forward refs across files and namespaces
b = 'namespace b\nimport a\nstruct B extends a.A\n    y String\n'
a2 = 'namespace a\nstruct A\n    x String\n'
t('xns parent b first', [('b.stone', b), ('a.stone', a2)])
t('xns parent a first', [('a.stone', a2), ('b.stone', b)])
# enumerated subtypes across namespaces?
a3 = 'namespace a\nimport b\nstruct A\n    union\n        s b.S\n    x String\n'
b3 = 'namespace b\nimport a\nstruct S extends a.A\n    y String\n'
t('circular import', [('a.stone', a3), ('b.stone', b3)])
# alias cycles
t('alias cycle', [('a.stone', 'namespace a\nalias X = Y\nalias Y = X\n')])
t('alias self', [('a.stone', 'namespace a\nalias X = X\n')])
t('struct self parent', [('a.stone', 'namespace a\nstruct S extends S\n    a String\n')])
t('struct cycle parent', [('a.stone', 'namespace a\nstruct S extends T\n    a String\nstruct T extends S\n    b String\n')])
t('alias list cycle', [('a.stone', 'namespace a\nalias X = List(X)\n')])
t('nullable alias nullable', [('a.stone', 'namespace a\nalias X = String?\nstruct S\n    f X?\n')])
t('alias nullable via list ok', [('a.stone', 'namespace a\nalias X = String?\nstruct S\n    f List(X)\n')])
t('route deprecated by self', [('a.stone', 'namespace a\nroute r(Void,Void,Void) deprecated by r\n')])
t('doc ref val', [('a.stone', 'namespace a\nstruct S\n    "x :val:`1.` y :route:`r:x`"\n    a String\n')])
t('doc ref route bad version', [('a.stone', 'namespace a\nroute r(Void,Void,Void)\n    ":route:`r:x`"\n')])
t('doc ref field imported ns', [('a.stone', 'namespace a\nimport b\nstruct S\n    ":field:`b.T`"\n    a String\n'), ('b.stone','namespace b\nstruct T\n    q String\n')])
t('doc ref field alias to prim', [('a.stone', 'namespace a\nalias X = String\nstruct S\n    ":field:`X.foo`"\n    a String\n')])
t('doc ref field on annotation', [('a.stone', 'namespace a\nannotation D = Deprecated()\nstruct S\n    ":field:`D.foo`"\n    a String\n')])
t('doc ref field route doc', [('a.stone', 'namespace a\nroute r(Void,Void,Void)\n    ":field:`foo`"\n')])
t('doc ref type ns not ns', [('a.stone', 'namespace a\nstruct T\n    a String\nstruct S\n    ":type:`T.x`"\n    a String\n')])
