import json, itertools
from gen import build
import stone.backends.python_rsrc.stone_serializers as ss
import stone.backends.python_rsrc.stone_validators as bv
spec = '''
namespace ns
annotation Int = Omitted("internal")
annotation Adm = Omitted("admin")
annotation Blot = RedactedBlot()
annotation Hash = RedactedHash()
annotation BlotR = RedactedBlot("(a+)b")
alias Secret = String
    @Blot
struct Base
    pub String
    sec String
        @Int
    adm String?
        @Adm
struct Child extends Base
    c String
    csec Int64
        @Int
    r String
        @Hash
    s2 Secret
    ls List(Secret)
    ms Map(String, Secret)
    lls List(List(String))
        @Blot
    n Int64
        @Hash
    br String
        @BlotR
union U
    a
    b String
        @Int
    c Child
struct Tree
    union
        leaf Leaf
    t String
    ts String
        @Int
struct Leaf extends Tree
    l String
    ls2 String
        @Adm
'''
api, mods, out = build([('ns.stone', spec)])
ns = mods['ns']
class P(ss.CallerPermissionsInterface):
    def __init__(self, p): self._p = p
    @property
    def permissions(self): return self._p
def tryit(name, f):
    try:
        r = f(); print(name, '->', r if isinstance(r, str) else repr(r))
    except bv.ValidationError as e: print(name, '-> ValidationError', e)
    except BaseException as e: print(name, '-> ESCAPE', type(e).__name__, e)
full = dict(pub='PUB', sec='SEC', adm='ADM', c='C', csec=7, r='RRR', s2='S2S2', ls=['L1','L2'], ms={'k':'MV'}, lls=[['x','y']], n=42, br='aaab-zz')
ch = ns.Child(**full)
for perms in [[], ['internal'], ['admin'], ['internal','admin']]:
    tryit('enc Child perms=%s' % perms, lambda: ss.json_encode(ns.Child_validator, ch, caller_permissions=P(perms)))
tryit('enc Child redact', lambda: ss.json_encode(ns.Child_validator, ch, caller_permissions=P(['internal','admin']), should_redact=True))
# missing omitted field for caller w/o perm
ch2 = ns.Child(**{k:v for k,v in full.items() if k not in ('sec','csec')})
tryit('enc Child no sec perms=[]', lambda: ss.json_encode(ns.Child_validator, ch2))
tryit('enc Child no sec perms=[internal]', lambda: ss.json_encode(ns.Child_validator, ch2, caller_permissions=P(['internal'])))
d = json.loads(ss.json_encode(ns.Child_validator, ch, caller_permissions=P(['internal','admin'])))
tryit('dec full strict perms=[]', lambda: ss.json_compat_obj_decode(ns.Child_validator, d, caller_permissions=P([])))
tryit('dec full lenient perms=[]', lambda: ss.json_compat_obj_decode(ns.Child_validator, d, caller_permissions=P([]), strict=False))
tryit('dec full strict perms=[internal,admin]', lambda: ss.json_compat_obj_decode(ns.Child_validator, d, caller_permissions=P(['internal','admin'])))
dpub = json.loads(ss.json_encode(ns.Child_validator, ch))
tryit('dec pub strict perms=[internal]', lambda: ss.json_compat_obj_decode(ns.Child_validator, dpub, caller_permissions=P(['internal'])))
tryit('U.b perms=[]', lambda: ss.json_encode(ns.U_validator, ns.U.b('x')))
tryit('U.b perms=[internal]', lambda: ss.json_encode(ns.U_validator, ns.U.b('x'), caller_permissions=P(['internal'])))
tryit('U.c perms=[] nested', lambda: ss.json_encode(ns.U_validator, ns.U.c(ch)))
tryit('dec U.b strict perms=[]', lambda: ss.json_compat_obj_decode(ns.U_validator, {'.tag':'b','b':'x'}))
tryit('dec U.b lenient perms=[]', lambda: ss.json_compat_obj_decode(ns.U_validator, {'.tag':'b','b':'x'}, strict=False))
lf = ns.Leaf(t='T', ts='TS', l='L', ls2='LS2')
for perms in [[], ['internal'], ['admin'], ['internal','admin']]:
    tryit('enc Tree/Leaf perms=%s' % perms, lambda: ss.json_encode(ns.Tree_validator, lf, caller_permissions=P(perms)))
tryit('enc list of child perms=[]', lambda: ss.json_encode(bv.List(ns.Child_validator), [ch]))
