import sys, os, hashlib, tempfile
from stone.frontend.frontend import specs_to_ir
from stone.compiler import Compiler
import stone.backends.python_types as pt
spec = '''
namespace ns
annotation A1 = Omitted("alpha")
annotation A2 = Omitted("beta")
annotation A3 = Omitted("gamma")
union U
    a
    b String
        @A1
    c String
        @A2
    d String
        @A3
struct S
    x String
    y String
        @A1
    z String
        @A2
'''
api = specs_to_ir([('ns.stone', spec)])
root = tempfile.mkdtemp()
Compiler(api, pt, ['--package','p'], root).build()
print([l for l in open(os.path.join(root,'ns.py')) if '_permissioned_tagmaps' in l])
