import sys, io, contextlib, tempfile, importlib
import stone.cli as cli
def run(*extra):
    out = tempfile.mkdtemp()
    sys.argv = ['stone-test', 'cli/cap.stoneg.py', out, 'cli/cfg.stone', 'cli/a.stone', 'cli/b.stone'] + list(extra)
    err = io.StringIO()
    try:
        with contextlib.redirect_stderr(err):
            api = cli.main()
    except SystemExit as e:
        return 'EXIT %s: %s' % (e.code, err.getvalue().strip().splitlines()[-1:] )
    except BaseException as e:
        return 'ESCAPE %s %s' % (type(e).__name__, e)
    return {n: ([ (r.name_with_version(), dict(r.attrs)) for r in ns.routes], sorted(ns.routes_by_name), sorted(ns.route_by_name), [d.name for d in ns.data_types]) for n, ns in api.namespaces.items()}, [f.name for f in api.route_schema.fields]
tests = [[], ['-a', ':all'], ['-a', 'host', '-a', 'n'], ['-a', 'nope'], ['-w', 'a'], ['-w', 'zzz'], ['-b', 'a'], ['-b', 'zzz'],
 ['-f', 'n=1', '-a', ':all'], ['-f', 'n=1 and host="content"'], ['-f', 'flag=true or n=1 and host="api"', '-a', 'host'],
 ['-f', 'opt=null'], ['-f', 'opt!=null'], ['-f', 'n=1 or'], ['-f', 'n==1'], ['-f', '(n=1'], ['-f', 'n=1)'], ['-f', 'nosuch=1'], ['-f', 'nosuch=null'], ['-f', 'flag=1'], ['-f', 'n=true'], ['-f', 'n=1.0'], ['-f', 'host=content'], ['-f', 'n=1 $'], ['-f', '-w', 'a']]
for t in tests:
    print(t, '->', run(*t))
