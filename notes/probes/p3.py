import json
import stone.backends.python_rsrc.stone_serializers as ss
import stone.backends.python_rsrc.stone_validators as bv
def tryit(name, f):
    try:
        r = f()
        print(name, '->', repr(r))
    except bv.ValidationError as e:
        print(name, '-> ValidationError', e)
    except BaseException as e:
        print(name, '-> ESCAPE', type(e).__name__, e)
tryit('top list int w/ str', lambda: ss.json_compat_obj_decode(bv.List(bv.Int32()), ['x']))
tryit('top list max_items', lambda: ss.json_compat_obj_decode(bv.List(bv.Int32(), max_items=1), [1,2,3]))
tryit('top nullable int w/ str', lambda: ss.json_compat_obj_decode(bv.Nullable(bv.Int32()), 'x'))
tryit('top map', lambda: ss.json_compat_obj_decode(bv.Map(bv.String(), bv.Int32()), {'a': 'x'}))
tryit('top int str', lambda: ss.json_compat_obj_decode(bv.Int32(), 'x'))
tryit('top list ts', lambda: ss.json_compat_obj_decode(bv.List(bv.Timestamp('%Y')), ['2000']))
# encode top-level
tryit('enc list', lambda: ss.json_compat_obj_encode(bv.List(bv.Int32()), [1,2]))
tryit('enc list tuple', lambda: ss.json_compat_obj_encode(bv.List(bv.Int32()), (1,2)))
tryit('enc bool as int', lambda: ss.json_compat_obj_encode(bv.Int32(), True))
tryit('enc int as float', lambda: ss.json_compat_obj_encode(bv.Float64(), 3))
tryit('json enc int as float', lambda: ss.json_encode(bv.Float64(), 3))
tryit('json enc big float', lambda: ss.json_encode(bv.Float64(), 1e300))
tryit('dec float from int', lambda: ss.json_decode(bv.Float64(), '3'))
