from gen import build
a = 'namespace aa\nimport bb\nstruct A\n    x bb.B?\n'
b = 'namespace bb\nimport cc\nstruct B\n    y cc.C?\n'
c = 'namespace cc\nimport aa\nstruct C\n    z aa.A?\n'
try:
    api, mods, out = build([('a.stone', a), ('b.stone', b), ('c.stone', c)])
    print('import ok', list(mods))
except BaseException as e:
    print('ESCAPE', type(e).__name__, e)
