import io, sys, json, tempfile, os
from gen import build
import stone.backends.python_rsrc.stone_serializers as ss
import stone.backends.python_rsrc.stone_validators as bv
spec = '''
namespace ns
struct P
    s String(pattern="a") = "ab"
    b Bytes
    f Float64 = 1
    example default
        b = "hello!"
'''
api, mods, out = build([('ns.stone', spec)])
ns = mods['ns']
p = ns.P(b=b'x')
print('default read', repr(p.s), repr(p.f))
try:
    p.s = p.s; print('default accepted by class')
except bv.ValidationError as e:
    print('default REJECTED by class:', e)
ex = api.namespaces['ns'].data_type_by_name['P'].get_examples()['default'].value
print('example', json.dumps(ex))
try:
    v = ss.json_compat_obj_decode(ns.P_validator, ex, strict=True); print('example decodes', v, ss.json_compat_obj_encode(ns.P_validator, v))
except bv.ValidationError as e:
    print('example REJECTED:', e)
