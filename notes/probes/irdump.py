"""quick canonical dump of an Api (probe only)"""
from stone.ir import *
from stone.ir.data_types import TagRef
def ty(t):
    if isinstance(t, Nullable): return ['nullable', ty(t.data_type)]
    if isinstance(t, List): return ['list', ty(t.data_type), t.min_items, t.max_items]
    if isinstance(t, Map): return ['map', ty(t.key_data_type), ty(t.value_data_type)]
    if isinstance(t, Alias): return ['alias', t.namespace.name, t.name]
    if isinstance(t, (Struct, Union)): return ['user', t.namespace.name, t.name]
    if isinstance(t, String): return ['String', t.min_length, t.max_length, t.pattern]
    if isinstance(t, Timestamp): return ['Timestamp', t.format]
    if hasattr(t, 'min_value'): return [t.name, t.min_value, t.max_value]
    return [t.name]
def val(v):
    if isinstance(v, TagRef): return ['tagref', v.union_data_type.name, v.tag_name]
    return repr(v)
def dump(api):
    out = {}
    for nsn, ns in api.namespaces.items():
        d = out[nsn] = {'doc': ns.doc, 'types': [], 'aliases': [], 'routes': [], 'imports': [n.name for n in ns.get_imported_namespaces(consider_annotations=True, consider_annotation_types=True)]}
        for t in ns.data_types:
            e = {'name': t.name, 'kind': type(t).__name__, 'parent': ty(t.parent_type) if t.parent_type else None, 'doc': t.doc,
                 'fields': [[f.name, ty(f.data_type), f.doc, f.omitted_caller, bool(f.redactor), f.deprecated, f.preview,
                             (val(f.default) if getattr(f, 'has_default', False) else None)] for f in t.fields],
                 'all_fields': [f.name for f in t.all_fields],
                 'examples': {k: repr(v.value) for k, v in t.get_examples().items()}}
            if isinstance(t, Struct) and t.has_enumerated_subtypes():
                e['subtypes'] = [[f.name, f.data_type.name] for f in t.get_enumerated_subtypes()]; e['catch_all'] = t.is_catch_all()
            if isinstance(t, Union): e['closed'] = t.closed
            d['types'].append(e)
        for a in ns.aliases: d['aliases'].append([a.name, ty(a.data_type), a.doc])
        for r in ns.routes: d['routes'].append([r.name, r.version, (r.deprecated.by.name_with_version() if r.deprecated and r.deprecated.by else bool(r.deprecated)), ty(r.arg_data_type), ty(r.result_data_type), ty(r.error_data_type), {k: val(v) for k, v in sorted(r.attrs.items())}, r.doc])
        d['lin_types'] = [t.name for t in ns.linearize_data_types()]
        d['lin_aliases'] = [a.name for a in ns.linearize_aliases()]
    return out
