import sys, traceback
from stone.frontend.frontend import specs_to_ir
from stone.frontend.exception import InvalidSpec
def t(name, text, **kw):
    try:
        api = specs_to_ir([('a.stone', text)], **kw)
        print(name, '-> OK')
        return api
    except InvalidSpec as e:
        print(name, '-> InvalidSpec', e.msg, e.lineno, e.path)
    except BaseException as e:
        print(name, '-> ESCAPE', type(e).__name__, e)
t('kw-not-namespace', 'doc foo\n')
t('eof', 'namespace a\nstruct S\n    f String(\n')
t('empty', '')
t('only-comment', '# hi\n')
t('no-namespace-first', 'struct S\n    f String\n')
t('two namespaces', 'namespace a\nnamespace b\n')
t('void attr', 'namespace stone_cfg\nstruct Route\n    a String\n\nnamespace a\n')
t('list default', 'namespace a\nstruct S\n    f List(String) = "x"\n')
t('struct default', 'namespace a\nstruct T\n    g String\nstruct S\n    f T = "x"\n')
t('map example bad', 'namespace a\nstruct S\n    f Map(String, Int32)\n    example default\n        f = 3\n')
t('min_items str', 'namespace a\nstruct S\n    f List(String, min_items="a")\n')
t('List of non-type', 'namespace a\nstruct S\n    f List(3)\n')
t('pattern int', 'namespace a\nstruct S\n    f String(pattern=3)\n')
t('alias example', 'namespace a\nalias A = T\nstruct T\n    g String\n    example default\n        g="x"\nstruct S\n    f A\n    example default\n        f = default\n')
t('float default on str', 'namespace a\nstruct S\n    f Float64 = "x"\n')
t('timestamp default', 'namespace a\nstruct S\n    f Timestamp("%Y") = 3\n')
t('union default nonvoid', 'namespace a\nunion U\n    a String\nstruct S\n    f U = a\n')
t('default tagref on string', 'namespace a\nstruct S\n    f String = a\n')
t('nullable default tag', 'namespace a\nunion U\n    a\nstruct S\n    f U? = a\n')
