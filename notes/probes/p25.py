import json
from stone.frontend.frontend import specs_to_ir
from gen import build
A = '''
namespace a
    "ns doc :type:`DocOnlyNs`"
import b
alias AT = Tgt
alias AL = List(b.BT)
struct Tgt
    x String
struct DocOnlyNs
    z String
struct Arg
    "doc :type:`DocT` and :field:`FieldT.q` and :route:`other_route` and :type:`b.BDoc`"
    f AT
    l AL
    m Map(String, MapV)?
    d b.BU = bx
    p Par?
        "field doc :type:`FieldDocT`"
struct Par extends GrandPar
    pp String
struct GrandPar
    g String
struct MapV
    v String
struct DocT
    q String
struct FieldT
    q String
struct FieldDocT
    q String
struct Tree
    union
        l1 Leaf1
        l2 Leaf2
    t String
struct Leaf1 extends Tree
    a1 OnlyInLeaf
struct Leaf2 extends Tree
    a2 String
struct OnlyInLeaf
    o String
struct Res
    t Leaf1
struct Unused
    u String
struct UsesTree
    t Tree
union Er
    e1 ErrPayload
struct ErrPayload
    e String
route main(Arg, Res, Er)
route other_route(OtherArg, Void, Void)
struct OtherArg
    o String
route unrelated(Unused, Void, Void)
route viatree(UsesTree, Void, Void)
'''
B = '''
namespace b
struct BT
    t String
union BU
    bx
    byy BY
struct BY
    y String
struct BDoc
    d String
struct BUnused
    u String
'''
specs = [('a.stone', A), ('b.stone', B)]
for wl in [{'a': ['main']}, {'a': ['viatree']}, {'a': ['*']}]:
    api = specs_to_ir(specs, route_whitelist_filter={'route_whitelist': wl, 'datatype_whitelist': {}})
    print(wl, {n: sorted(d.name for d in ns.data_types) for n, ns in api.namespaces.items()}, {n: [r.name_with_version() for r in ns.routes] for n, ns in api.namespaces.items()}, {n: [a.name for a in ns.aliases] for n, ns in api.namespaces.items()})
    try:
        build(specs, route_whitelist_filter={'route_whitelist': wl, 'datatype_whitelist': {}}); print('  import ok')
    except BaseException as e: print('  IMPORT FAIL', type(e).__name__, str(e)[:100])
