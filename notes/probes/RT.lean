namespace RT

inductive Ty where
  | int (lo hi : Int) | str | list (t : Ty) | nullable (t : Ty) | strct (fs : List (String × Ty))
deriving Repr

inductive Val where
  | null | int (n : Int) | str (s : String) | list (vs : List Val) | strct (fs : List (String × Val))
deriving Repr

inductive Json where
  | null | int (n : Int) | str (s : String) | arr (xs : List Json) | obj (kvs : List (String × Json))
deriving Repr

mutual
def enc : Ty → Val → Option Json
  | .int lo hi, .int n => if lo ≤ n ∧ n ≤ hi then some (.int n) else none
  | .str, .str s => some (.str s)
  | .list t, .list vs => (encList t vs).map .arr
  | .nullable _, .null => some .null
  | .nullable t, v => enc t v
  | .strct fs, .strct vs => (encFields fs vs).map .obj
  | _, _ => none
def encList : Ty → List Val → Option (List Json)
  | _, [] => some []
  | t, v :: vs => do let j ← enc t v; let js ← encList t vs; pure (j :: js)
def encFields : List (String × Ty) → List (String × Val) → Option (List (String × Json))
  | [], [] => some []
  | (k, t) :: fs, (k', v) :: vs => if k = k' then do let j ← enc t v; let js ← encFields fs vs; pure ((k, j) :: js) else none
  | _, _ => none
end

mutual
def dec : Ty → Json → Option Val
  | .int lo hi, .int n => if lo ≤ n ∧ n ≤ hi then some (.int n) else none
  | .str, .str s => some (.str s)
  | .list t, .arr xs => (decList t xs).map .list
  | .nullable _, .null => some .null
  | .nullable t, j => dec t j
  | .strct fs, .obj kvs => (decFields fs kvs).map .strct
  | _, _ => none
def decList : Ty → List Json → Option (List Val)
  | _, [] => some []
  | t, j :: js => do let v ← dec t j; let vs ← decList t js; pure (v :: vs)
def decFields : List (String × Ty) → List (String × Json) → Option (List (String × Val))
  | [], [] => some []
  | (k, t) :: fs, (k', j) :: js => if k = k' then do let v ← dec t j; let vs ← decFields fs js; pure ((k, v) :: vs) else none
  | _, _ => none
end

-- nullable of nullable makes null ambiguous; require no stacked nullables & value non-null inside nullable
mutual
def wf : Ty → Bool
  | .nullable (.nullable _) => false
  | .nullable t => wf t
  | .list t => wf t
  | .strct fs => wfFields fs
  | _ => true
def wfFields : List (String × Ty) → Bool
  | [] => true
  | (_, t) :: fs => wf t && wfFields fs
end

mutual
theorem dec_enc (t : Ty) (v : Val) (j : Json) (hw : wf t = true) (h : enc t v = some j) : dec t j = some v := by
  match t, v with
  | .int lo hi, .int n =>
    simp only [enc] at h
    split at h
    · cases h; simp [dec, *]
    · cases h
  | .str, .str s => simp only [enc] at h; cases h; simp [dec]
  | .list t, .list vs =>
    simp only [enc, Option.map_eq_some_iff] at h
    obtain ⟨js, h1, rfl⟩ := h
    have := dec_encList t vs js (by simpa [wf] using hw) h1
    simp [dec, this]
  | .nullable t, .null => simp only [enc] at h; cases h; simp [dec]
  | .nullable t, .int n => sorry
  | .nullable t, .str n => sorry
  | .nullable t, .list n => sorry
  | .nullable t, .strct n => sorry
  | .strct fs, .strct vs =>
    simp only [enc, Option.map_eq_some_iff] at h
    obtain ⟨js, h1, rfl⟩ := h
    have := dec_encFields fs vs js (by simpa [wf] using hw) h1
    simp [dec, this]
  | .int _ _, .null | .int _ _, .str _ | .int _ _, .list _ | .int _ _, .strct _ => simp [enc] at h
  | .str, .null | .str, .int _ | .str, .list _ | .str, .strct _ => simp [enc] at h
  | .list _, .null | .list _, .int _ | .list _, .str _ | .list _, .strct _ => simp [enc] at h
  | .strct _, .null | .strct _, .int _ | .strct _, .str _ | .strct _, .list _ => simp [enc] at h
theorem dec_encList (t : Ty) (vs : List Val) (js : List Json) (hw : wf t = true) (h : encList t vs = some js) : decList t js = some vs := by
  match vs with
  | [] => simp [encList] at h; subst h; simp [decList]
  | v :: vs =>
    simp only [encList, Option.bind_eq_bind, Option.bind_eq_some_iff, Option.pure_def] at h
    obtain ⟨j, hj, js', hjs, h⟩ := h
    cases h
    simp [decList, dec_enc t v j hw hj, dec_encList t vs js' hw hjs]
theorem dec_encFields (fs : List (String × Ty)) (vs : List (String × Val)) (js : List (String × Json)) (hw : wfFields fs = true) (h : encFields fs vs = some js) : decFields fs js = some vs := by
  sorry
end
end RT
