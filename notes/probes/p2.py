import json, traceback, datetime
from gen import build
import stone.backends.python_rsrc.stone_serializers as ss
import stone.backends.python_rsrc.stone_validators as bv
spec = '''
namespace ns
struct Opt
    a String?
    b Int32 = 3
struct Req
    a String
union U
    coord Opt?
    r Req?
    v
    s String
    res Res
struct Res
    union
        f F
    name String
struct F extends Res
    size UInt64
struct HasBytes
    b Bytes
struct HasTs
    t Timestamp("%Y-%m-%d")
struct P
    s String(pattern="a")
'''
api, mods, out = build([('ns.stone', spec)])
ns = mods['ns']
def tryit(name, f):
    try:
        r = f()
        print(name, '->', repr(r))
    except bv.ValidationError as e:
        print(name, '-> ValidationError', e)
    except BaseException as e:
        print(name, '-> ESCAPE', type(e).__name__, e)
u = ns.U.coord(ns.Opt())
enc = ss.json_compat_obj_encode(ns.U_validator, u)
print('enc', enc)
dec = ss.json_compat_obj_decode(ns.U_validator, enc)
print('dec', dec, dec == u)
tryit('tree non-dict int', lambda: ss.json_compat_obj_decode(ns.Res_validator, 3))
tryit('tree non-dict list', lambda: ss.json_compat_obj_decode(ns.Res_validator, [1]))
tryit('tree non-dict str', lambda: ss.json_compat_obj_decode(ns.Res_validator, "abc"))
tryit('tree None', lambda: ss.json_compat_obj_decode(ns.Res_validator, None))
tryit('bytes non-ascii', lambda: ss.json_compat_obj_decode(ns.HasBytes_validator, {'b': 'é'}))
tryit('bytes int', lambda: ss.json_compat_obj_decode(ns.HasBytes_validator, {'b': 3}))
tryit('bytes list', lambda: ss.json_compat_obj_decode(ns.HasBytes_validator, {'b': [1]}))
tryit('ts int', lambda: ss.json_compat_obj_decode(ns.HasTs_validator, {'t': 3}))
tryit('struct key int in strict', lambda: ss.json_compat_obj_decode(ns.Req_validator, {'a': 'x', 1: 2}))
tryit('map non-str key', lambda: ss.json_compat_obj_decode(bv.Map(bv.String(), bv.Int32()), {1: 2}))
tryit('union tag unhashable', lambda: ss.json_compat_obj_decode(ns.U_validator, {'.tag': ['x']}))
tryit('lenient unknown struct tree', lambda: ss.json_compat_obj_decode(ns.Res_validator, {'.tag': 'zzz', 'name': 'n'}, strict=False))
tryit('catchall re-encode', lambda: ss.json_compat_obj_encode(ns.Res_validator, ss.json_compat_obj_decode(ns.Res_validator, {'.tag': 'zzz', 'name': 'n'}, strict=False)))
tryit('pattern prefix', lambda: ns.P(s='ab'))
tryit('int field float 1.0', lambda: ns.Opt(b=1.0))
tryit('int field bool', lambda: ns.Opt(b=True))
tryit('nan', lambda: ss.json_decode(bv.Float64(), 'NaN'))
tryit('bigint float', lambda: ss.json_decode(bv.Float64(), '1' + '0'*400))
tryit('json str decode bad utf', lambda: ss.json_decode(ns.Req_validator, b'\xff'))
tryit('union str for nullable tag', lambda: ss.json_compat_obj_decode(ns.U_validator, 'coord'))
tryit('union other explicit', lambda: ss.json_compat_obj_decode(ns.U_validator, 'other'))
tryit('union dict other explicit lenient', lambda: ss.json_compat_obj_decode(ns.U_validator, {'.tag':'other'}, strict=False))
tryit('void primitive strict non-null', lambda: ss.json_compat_obj_decode(bv.Void(), 3))
tryit('list of struct null elem', lambda: ss.json_compat_obj_decode(bv.List(ns.Req_validator), [None]))
tryit('list of opt struct null elem', lambda: ss.json_compat_obj_decode(bv.List(ns.Opt_validator), [None]))
tryit('struct with unhashable', lambda: ss.json_compat_obj_decode(ns.Req_validator, {'a': {'x': 1}}))
tryit('res tag in union', lambda: ss.json_compat_obj_decode(ns.U_validator, {'.tag': 'res', 'res': 5}))
tryit('union nullable struct w/ non-dict', lambda: ss.json_compat_obj_decode(ns.U_validator, {'.tag': 'r', 'a': 5}))
