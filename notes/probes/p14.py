# stdin splitting
text = 'namespace a\nstruct S\n    "doc mentions namespace here"\n    namespace_id String\n'
parts = text.split('namespace')
print(len(parts))
