import json, random
from stone.frontend.frontend import specs_to_ir
from stone.frontend.exception import InvalidSpec
from irdump import dump
spec = '''namespace files
    "ns doc
    second line"

import common

alias Path = String(pattern="/.*")
    "a path"

struct Meta
    "Metadata.

    para two"
    union
        file FileMeta
        folder FolderMeta
    name String
        "the name"
    path Path?
    example default
        file = default

struct FileMeta extends Meta
    size UInt64
    when common.Date
    m Map(String, List(Int32))
    example default
        name = "n"
        size = 3
        when = "2000-01-01T00:00:00Z"
        m = {"a": [1, 2], "b": []}

struct FolderMeta extends Meta
    "folder"

union WriteMode
    add
        "add doc"
    overwrite
    update String
    m Meta

struct Arg
    path Path
    mode WriteMode = add
    mute Boolean = false

route upload(Arg, Meta, Void)
    "Upload."
    attrs
        style = "upload"

route get:2(
    Arg,
    FileMeta,
    Void) deprecated
'''
common = 'namespace common\nalias Date = Timestamp("%Y-%m-%dT%H:%M:%SZ")\n'
cfg = 'namespace stone_cfg\nstruct Route\n    style String = "rpc"\n'
def comp(text):
    try: return ('ok', json.dumps(dump(specs_to_ir([('cfg.stone', cfg), ('f.stone', text), ('c.stone', common)])), sort_keys=True))
    except InvalidSpec as e: return ('invalid', '%s @%s' % (e.msg, e.lineno))
    except BaseException as e: return ('ESCAPE', type(e).__name__ + str(e))
ref = comp(spec); print(ref[0])
lines = spec.split('\n')
# find line boundaries not inside a multi-line string
def in_string_after(i):
    # count unescaped quotes in lines[:i+1]
    return ''.join(lines[:i+1]).count('"') % 2 == 1
inserts = ['', '   ', '# c', '    # c', '            # deep', '        ', '#']
bad = 0; n = 0
for i in range(len(lines)):
    if in_string_after(i): continue
    for ins in inserts:
        t = '\n'.join(lines[:i+1] + [ins] + lines[i+1:])
        r = comp(t); n += 1
        if r != ref:
            bad += 1
            print('DIFF after line %d %r insert %r -> %s %s' % (i, lines[i], ins, r[0], r[1][:100] if r[0] != 'ok' else ''))
# trailing whitespace / trailing comments on every line
for i in range(len(lines)):
    if in_string_after(i) or not lines[i].strip(): continue
    for suf in ['   ', ' # trailing', '\t']:
        t = '\n'.join(lines[:i] + [lines[i] + suf] + lines[i+1:])
        r = comp(t); n += 1
        if r != ref:
            bad += 1
            print('DIFF suffix line %d %r suf %r -> %s %s' % (i, lines[i], suf, r[0], r[1][:100] if r[0] != 'ok' else ''))
print('cases', n, 'bad', bad)
