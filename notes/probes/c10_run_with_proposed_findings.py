"""./check C10 with the proposed finding lines appended in memory to KNOWN_FINDINGS (nothing is written to it)."""
import json, os, sys
sys.path[:0] = [os.environ.get('STONE_REPO', '/repo'), '/verif']
os.environ.setdefault('PYTHONHASHSEED', '0')
from harness import core
core.ensure_repo_on_path()
orig = core.Check.findings
def findings(self):
    if self._findings is None:
        orig(self)
        for line in open('/verif/notes/c10_known_findings_proposed.jsonl', encoding='utf-8'):
            if line.strip():
                self._findings.append(json.loads(line))
    return self._findings
core.Check.findings = findings
from harness.props import C10
seed = int(os.environ.get('VERIF_SEED', '0'))
sys.exit(C10.run(core.Check('C10', os.environ.get('VERIF_TIER', 'quick'), seed)))
