"""every replay file of the last run(s) must match exactly one proposed finding (subset match, as Check._match_finding)"""
import json, glob, sys, os
props = [json.loads(l) for l in open('/verif/notes/c10_known_findings_proposed.jsonl') if l.strip()]
since = float(sys.argv[1]) if len(sys.argv) > 1 else 0
bad = 0
hits = {}
for f in sorted(glob.glob('/verif/evidence/replays/C10-*.json')):
    if os.path.getmtime(f) < since: continue
    r = json.load(open(f))
    sig = r.get('signature')
    if sig is None:
        print('NO SIGNATURE', f, r.get('broken', '')[:200] if isinstance(r.get('broken'), str) else r.get('no_failing_input_found')); bad += 1; continue
    m = [p['id'] for p in props if p['property'] == r['property'] and p['match'] and all(sig.get(k) == v for k, v in p['match'].items())]
    if len(m) != 1:
        print('MATCHES', m, sig, f); bad += 1
    for i in m: hits[i] = hits.get(i, 0) + 1
print('replays matched per finding:', hits)
print('findings without a replay:', [p['id'] for p in props if p['id'] not in hits])
sys.exit(1 if bad else 0)
