import sys, os, tempfile, importlib, inspect, warnings
from stone.frontend.frontend import specs_to_ir
from stone.compiler import Compiler
import stone.backends.python_types as pt, stone.backends.python_client as pc
cfg = 'namespace stone_cfg\nstruct Route\n    style String = "rpc"\n'
spec = '''
namespace files
import common
alias Path = String
struct Base
    a String
    b Int32 = 5
    c String?
struct Arg extends Base
    d common.Mode = add
    e Path
    ff List(String)?
    g Float64 = 1
union U
    x
    y String
route up(Arg, Void, Void)
    attrs
        style = "upload"
route get(Arg, Base, Void) deprecated by get:2
route get:2(U, Void, Void)
route ping(Void, Void, Void) deprecated
route dl(Base, Base, Void)
    attrs
        style = "download"
'''
common = 'namespace common\nunion Mode\n    add\n    over\n'
root = tempfile.mkdtemp(); out = os.path.join(root, 'pk')
specs = [('cfg.stone', cfg), ('files.stone', spec), ('common.stone', common)]
Compiler(specs_to_ir(specs), pt, ['-p', 'pk'], out).build()
Compiler(specs_to_ir(specs), pc, ['-m', 'base', '-c', 'Base', '-t', 'pk'], out).build()
sys.path.insert(0, root)
base = importlib.import_module('pk.base'); files = importlib.import_module('pk.files'); cm = importlib.import_module('pk.common')
class C(base.Base):
    def __init__(self): self.calls = []
    def request(self, route, namespace, arg, body, timeout=None):
        self.calls.append((route, namespace, arg, body)); return 'RES'
    def _save_body_to_file(self, p, b): pass
c = C()
for name, fn in inspect.getmembers(C, inspect.isfunction):
    if name.startswith('files_'): print(name, inspect.signature(fn))
with warnings.catch_warnings(record=True) as w:
    warnings.simplefilter('always')
    print(c.files_up(b'BODY', 'A', 'E', c='C'))
    print(c.files_get('A', 'E', 9))
    print(c.files_get_v2(files.U.x))
    print(c.files_ping())
    print([str(x.message) for x in w])
for call in c.calls: print(call[0].name, call[0].version, call[1], call[2], call[3])
print(c.calls[0][2] == files.Arg(a='A', e='E', c='C', b=5, d=cm.Mode.add, g=1.0))
