import subprocess, sys, os, tempfile
from stone.frontend.frontend import specs_to_ir
from stone.compiler import Compiler
import stone.backends.python_types as pt
a = 'namespace aa\nimport bb\nstruct A\n    x bb.B?\n'
b = 'namespace bb\nimport cc\nstruct B\n    y cc.C?\n'
c = 'namespace cc\nimport aa\nstruct C\n    z aa.A?\n'
api = specs_to_ir([('a.stone', a), ('b.stone', b), ('c.stone', c)])
root = tempfile.mkdtemp(); out = os.path.join(root, 'pk')
Compiler(api, pt, ['--package','pk'], out).build()
for first in ['aa','bb','cc']:
    r = subprocess.run([sys.executable, '-c', 'import pk.%s' % first], cwd=root, capture_output=True, text=True)
    print(first, r.returncode, r.stderr.strip().splitlines()[-1:] )
