import importlib, tempfile, shutil
from stone.frontend.frontend import specs_to_ir
from stone.compiler import Compiler, BackendException
cfg = 'namespace stone_cfg\nstruct Route\n    host String = "api"\n    style String = "rpc"\n    auth String = "user"\n'
def run(text, backend='swift_types', args=['--objc']):
    api = specs_to_ir([('cfg.stone', cfg), ('v.stone', text)])
    root = tempfile.mkdtemp()
    try:
        Compiler(api, importlib.import_module('stone.backends.'+backend), args, root).build(); return 'OK'
    except BackendException as e: return e.traceback.strip().splitlines()[-1][:120]
    finally: shutil.rmtree(root, ignore_errors=True)
print('map of struct   ', run('namespace v\nstruct S\n    a String\nstruct H\n    m Map(String, S)\n'))
print('map of string   ', run('namespace v\nstruct H\n    m Map(String, String)\n'))
print('map of int      ', run('namespace v\nstruct H\n    m Map(String, Int32)\n'))
print('list of map     ', run('namespace v\nstruct H\n    m List(Map(String, Int32))\n'))
print('map of list     ', run('namespace v\nstruct H\n    m Map(String, List(Int32))\n'))
print('nullable map    ', run('namespace v\nstruct H\n    m Map(String, Int32)?\n'))
print('union map       ', run('namespace v\nunion H\n    m Map(String, Int32)\n'))
base = 'namespace v\nstruct R\n    union\n        a A\n    x String\nstruct A extends R\n    y String\n'
print('map of tree     ', run(base + 'struct H\n    m Map(String, R)\n'))
print('list of tree    ', run(base + 'struct H\n    m List(R)\n'))
print('tree field      ', run(base + 'struct H\n    m R\n'))
print('tree self list  ', run('namespace v\nstruct R\n    union\n        a A\n    x String\nstruct A extends R\n    l List(R)\n'))
print('route of map    ', run('namespace v\nstruct S\n    a String\nroute r(S, Map(String, S), Void)\n'))
