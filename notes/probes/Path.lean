namespace P
/-- POSIX normpath on an absolute path given as raw segments (split on '/'): drop "" and ".", ".." pops (at root stays). -/
def norm (acc : List String) : List String → List String
  | [] => acc.reverse
  | s :: ss =>
    if s = "" ∨ s = "." then norm acc ss
    else if s = ".." then norm acc.tail ss
    else norm (s :: acc) ss

/-- os.path.relpath for two normalised absolute component lists -/
def commonLen : List String → List String → Nat
  | a :: as, b :: bs => if a = b then commonLen as bs + 1 else 0
  | _, _ => 0

def relpath (path start : List String) : List String :=
  let i := commonLen start path
  List.replicate (start.length - i) ".." ++ path.drop i

def escapes (rel : List String) : Bool :=
  match rel with
  | ".." :: _ => true
  | _ => false

theorem commonLen_le (a b : List String) : commonLen a b ≤ a.length := by
  induction a generalizing b with
  | nil => simp [commonLen]
  | cons x xs ih =>
    cases b with
    | nil => simp [commonLen]
    | cons y ys =>
      simp only [commonLen]; split
      · have := ih ys; simp; omega
      · simp

theorem commonLen_eq_iff_prefix (root p : List String) : commonLen root p = root.length ↔ root <+: p := by
  induction root generalizing p with
  | nil => simp [commonLen]
  | cons x xs ih =>
    cases p with
    | nil => simp [commonLen]
    | cons y ys =>
      simp only [commonLen]
      split
      · next h => subst h; simp [ih]
      · next h => simp [h]

/-- components of a normalised path never equal ".." -/
def NoDots (p : List String) : Prop := ∀ s ∈ p, s ≠ ".."

theorem contained_iff_prefix (root p : List String) (hp : NoDots p) :
    escapes (relpath p root) = false ↔ root <+: p := by
  rw [← commonLen_eq_iff_prefix]
  have hle := commonLen_le root p
  unfold relpath escapes
  constructor
  · intro h
    by_cases hne : commonLen root p = root.length
    · exact hne
    · have : root.length - commonLen root p = (root.length - commonLen root p - 1) + 1 := by omega
      simp only [] at h
      rw [this, List.replicate_succ] at h
      simp at h
  · intro h
    simp only [h, Nat.sub_self, List.replicate_zero, List.nil_append]
    split
    · next heq =>
      have : ".." ∈ p := by
        have : ".." ∈ List.drop root.length p := by rw [heq]; simp
        exact List.mem_of_mem_drop this
      exact absurd rfl (hp _ this)
    · rfl
#print axioms contained_iff_prefix
end P
