import sys, os, tempfile, importlib, shutil, random
from stone.frontend.frontend import specs_to_ir
from stone.compiler import Compiler, BackendException
cfg = 'namespace stone_cfg\nstruct Route\n    host String = "api"\n    style String = "rpc"\n    auth String = "user"\n    is_preview Boolean = false\n    scope String?\n'
variants = {
 'maps_lists': '''
namespace v
alias A1 = String
alias A2 = A1
alias AL = List(A2)
alias AM = Map(String, AL)
alias AS = S?
struct S
    m Map(String, List(Int32))
    ml List(Map(String, S))?
    mm Map(String, Map(String, Float64))
    al AL
    am AM
    n AS
    b Bytes
    t Timestamp("%Y")
    f32 Float32(min_value=-1.5, max_value=2)
    u32 UInt32 = 7
    i64 Int64(min_value=-9223372036854775808) = -1
    bo Boolean = true
    st String(min_length=0, max_length=3, pattern="[a-z]*") = "ab"
union U
    a
    s S
    ns S?
    l List(S)
    m Map(String, U)
    u2 U2
union_closed U2 extends U0
    z
union_closed U0
    y Int32
route r1(S, U, U2)
route r2(U, List(S), Void)
route r3(Void, S?, U)
''',
 'subtypes': '''
namespace v
struct R
    union
        a A
        b B
    x String
struct A extends R
    y R?
    l List(R)
struct B extends R
    "doc"
struct RC
    union_closed
        c C
    z Int32
struct C extends RC
    w String = "q"
struct H
    r R
    rc RC?
    m Map(String, R)
union U
    r R
    rc RC?
route rr(R, RC, U)
route q:3(H, Void, Void) deprecated
''',
 'empty_and_docs': '''
namespace v
    "Doc with :type:`E` and :route:`r` and :link:`t http://x` and :val:`true` :val:`null` :val:`1.5`"
struct E
    "empty struct {braces} %s 100%"
union UE
    "only catch all"
union_closed UC
    only
struct D
    "doc :field:`f` and :field:`E2.g`"
    f String
        "field doc :type:`UE`"
struct E2
    g String
route r(E, UE, UC)
    "route doc :route:`r` :type:`D`"
''',
}
tsd_dir = tempfile.mkdtemp()
def run(backend, args, specs, need_template=False):
    api = specs_to_ir(specs)
    mod = importlib.import_module('stone.backends.' + backend)
    root = tempfile.mkdtemp()
    if need_template:
        open(os.path.join(root, 't.template'), 'w').write('/*TYPES*/\n/*ROUTES*/\n')
    try:
        Compiler(api, mod, args, root).build()
        return 'OK'
    except BackendException as e:
        return 'BackendException ' + e.traceback.strip().splitlines()[-1][:150]
    except SystemExit as e:
        return 'SystemExit %s' % e
    except BaseException as e:
        return 'ESCAPE %s %s' % (type(e).__name__, e)
    finally:
        shutil.rmtree(root, ignore_errors=True)
sw = ['-m', 'Mod', '-c', 'Client', '-t', 'Transport', '-y', '{}', '-z', '{"rpc":"RpcRequest","upload":"UploadRequest","download":"DownloadRequest"}']
backends = [('python_types', ['-p','pk'],0), ('python_type_stubs', ['-p','pk'],0), ('python_client', ['-m','base','-c','Base','-t','pk'],0),
 ('js_client', ['r.js'],0), ('js_types', ['t.js'],0), ('tsd_types', ['t.template','t.d.ts'],1), ('tsd_client', ['t.template','c.d.ts'],1),
 ('swift_types', [],0), ('swift_types', ['--objc'],0), ('swift_client', sw,0), ('swift_client', sw+['--objc'],0), ('obj_c_types', [],0), ('obj_c_client', sw,0)]
for vn, text in variants.items():
    specs = [('cfg.stone', cfg), ('v.stone', text)]
    try:
        specs_to_ir(specs)
    except BaseException as e:
        print(vn, 'FRONTEND', type(e).__name__, getattr(e, 'msg', e)); continue
    for b, args, nt in backends:
        r = run(b, args, specs, nt)
        if r != 'OK': print(vn, b, args[:1], r)
    print(vn, 'done')
