from stone.backend import Backend
CAPTURED = []
class Cap(Backend):
    def generate(self, api):
        CAPTURED.append(api)
