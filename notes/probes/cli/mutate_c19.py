"""Detection test for ./check C19: applies one mutation at a time to a scratch copy of /repo and runs the check
against it (STONE_REPO). Every mutation below breaks the property and must give exit 1 with a VIOLATION line that
carries a concrete failing input.   usage: /venv/bin/python notes/probes/cli/mutate_c19.py [name ...]
The scratch copy (/tmp/stone-scratch-c19) is created here and removed at the end."""
import json
import os
import re
import shutil
import subprocess
import sys

SCR = '/tmp/stone-scratch-c19'
MUTS = {
    'prec-swap': ('stone/cli_helpers.py', "        ('left', 'OR'),\n        ('left', 'AND'),", "        ('left', 'AND'),\n        ('left', 'OR'),"),
    'neq-null-as-eq': ('stone/cli_helpers.py', "            return val != self.rhs", "            return (val != self.rhs) if self.rhs is not None else (val == self.rhs)"),
    'b-keeps-routes_by_name': ('stone/cli.py', "                    namespace = api.namespaces[namespace_name]\n                    namespace.routes = []\n                    namespace.route_by_name = {}\n                    namespace.routes_by_name = {}", "                    namespace = api.namespaces[namespace_name]\n                    namespace.routes = []\n                    namespace.route_by_name = {}"),
    'a-ignores-unknown': ('stone/cli.py', "        if attrs:\n            attr = attrs.pop()", "        if False:\n            attr = attrs.pop()"),
    'lexer-bang-silent': ('stone/cli_helpers.py', "        self.errors.append(\n            'Illegal character %s.' % repr(token.value[0]).lstrip('u'))", "        if token.value[0] != '!':\n            self.errors.append(\n                'Illegal character %s.' % repr(token.value[0]).lstrip('u'))"),
    'absent-not-null': ('stone/cli_helpers.py', "val = route.attrs.get(self.lhs, None)", "val = route.attrs.get(self.lhs, '')"),
    'w-unknown-ignored': ('stone/cli.py', "                    print('error: Whitelisted namespace missing from spec: %s' %\n                          namespace_name, file=sys.stderr)\n                    sys.exit(1)", "                    continue"),
    'and-as-or': ('stone/cli_helpers.py', "return self.lhs.eval(route) and self.rhs.eval(route)", "return self.lhs.eval(route) or self.rhs.eval(route)"),
    'float-truncated': ('stone/cli_helpers.py', "token.value = float(token.value)", "token.value = float(int(float(token.value)))"),
    'string-keeps-quote': ('stone/cli_helpers.py', "token.value = token.value[1:-1]", "token.value = token.value[1:]"),
    'w-keeps-route_by_name': ('stone/cli.py', "                if namespace.name not in args.whitelist_namespace_routes:\n                    namespace.routes = []\n                    namespace.route_by_name = {}", "                if namespace.name not in args.whitelist_namespace_routes:\n                    namespace.routes = []"),
    'keyword-or-is-and': ('stone/cli_helpers.py', "'or': 'OR',", "'or': 'AND',"),
    'filter-skips-readd-tables': ('stone/cli.py', "                for route in filtered_routes:\n                    namespace.add_route(route)", "                namespace.routes = filtered_routes"),
    'a-keeps-schema': ('stone/cli.py', "                api.route_schema.fields.remove(field)\n                del api.route_schema._fields_by_name[field.name]", "                pass"),
    'b-clears-types': ('stone/cli.py', "                    namespace = api.namespaces[namespace_name]\n                    namespace.routes = []", "                    namespace = api.namespaces[namespace_name]\n                    namespace.data_types = []\n                    namespace.routes = []"),
    'rpar-optional': ('stone/cli_helpers.py', "        'expr : LPAR expr RPAR'\n        p[0] = p[2]", "        '''expr : LPAR expr RPAR\n                | LPAR expr'''\n        p[0] = p[2]"),
    'add_route-any-version': ('stone/ir/api.py', "        if route.version == 1:\n            self.route_by_name[route.name] = route", "        self.route_by_name[route.name] = route"),
    'a-prunes-own-fields-only': ('stone/cli.py', "        for namespace in api.namespaces.values():\n            for route in namespace.routes:\n                for k in list(route.attrs.keys()):\n                    if k not in attrs:\n                        del route.attrs[k]", "        hidden_attrs = [field.name for field in api.route_schema.fields\n                        if field.name not in attrs]\n        for namespace in api.namespaces.values():\n            for route in namespace.routes:\n                for k in hidden_attrs:\n                    route.attrs.pop(k, None)"),
    'filter-negated': ('stone/cli.py', "                    if route_filter.eval(route):", "                    if not route_filter.eval(route):"),
}


def main():
    here = os.path.dirname(os.path.abspath(__file__))
    verif = os.path.normpath(os.path.join(here, '..', '..', '..'))
    repo = os.environ.get('STONE_REPO_ORIG', '/repo')
    shutil.rmtree(SCR, ignore_errors=True)
    shutil.copytree(repo, SCR)
    try:
        for name in sys.argv[1:] or list(MUTS):
            rel, old, new = MUTS[name]
            path = os.path.join(SCR, rel)
            orig = open(os.path.join(repo, rel)).read()
            assert old in orig, name
            open(path, 'w').write(orig.replace(old, new, 1))
            p = subprocess.run([os.path.join(verif, 'check'), 'C19'], capture_output=True, text=True,
                               env=dict(os.environ, STONE_REPO=SCR), cwd=verif)
            open(path, 'w').write(orig)
            print('=== %s -> exit %d' % (name, p.returncode))
            for line in p.stdout.splitlines():
                if line.startswith('VIOLATION'):
                    r = json.load(open(re.search(r'replay=(\S+)', line).group(1)))
                    if r.get('no_failing_input_found'):
                        print('   VIOLATION no-failing-input-found:', [(b['kind'], b['name']) for b in r['broken']])
                    else:
                        c = r['case']
                        brief = {k: c[k] for k in ('text', 'attrs', 'real', 'expected', 'opts', 'detail') if k in c}
                        print('   VIOLATION', r['signature'], '|', r['what'][:70], '|', json.dumps(brief)[:300])
                elif line.startswith(('KNOWN', 'C19 tier')):
                    print('  ', line[:400])
            if p.returncode not in (0, 1):
                print(p.stdout[-1500:], p.stderr[-1500:])
    finally:
        shutil.rmtree(SCR, ignore_errors=True)


if __name__ == '__main__':
    main()
