import json
from gen import build
from stone.frontend.exception import InvalidSpec
import stone.backends.python_rsrc.stone_serializers as ss
import stone.backends.python_rsrc.stone_validators as bv
def t(name, text):
    try:
        api, mods, out = build([('ns.stone', 'namespace ns\n' + text)])
    except InvalidSpec as e:
        print(name, '-> InvalidSpec', e.msg); return
    except BaseException as e:
        print(name, '-> ESCAPE(front/gen)', type(e).__name__, str(e)[:100]); return
    ns = mods['ns']
    for dt in api.namespaces['ns'].data_types:
        for label, ex in dt.get_examples().items():
            v = getattr(ns, dt.name + '_validator')
            try:
                js = json.loads(json.dumps(ex.value))
            except TypeError as e:
                print(name, dt.name, label, '-> example not JSON:', e); continue
            try:
                val = ss.json_compat_obj_decode(v, js, strict=True)
                back = json.loads(json.dumps(ss.json_compat_obj_encode(v, val)))
                print(name, dt.name, label, '-> ok' if back == js else '-> RE-ENCODE DIFF %s vs %s' % (back, js))
            except bv.ValidationError as e:
                print(name, dt.name, label, '-> REJECTED', e, json.dumps(js))
            except BaseException as e:
                print(name, dt.name, label, '-> ESCAPE', type(e).__name__, e)
S = 'struct S\n    a String\n    example default\n        a = "x"\n    example other\n        a = "y"\n'
t('list refs', S + 'struct H\n    l List(S)\n    example default\n        l = [default, other]\n')
t('map refs', S + 'struct H\n    m Map(String, S)\n    example default\n        m = {"k": default}\n')
t('nullable null', S + 'struct H\n    n S?\n    i Int32?\n    example default\n        n = null\n        i = null\n')
t('nullable ref', S + 'struct H\n    n S?\n    example default\n        n = other\n')
t('float int', 'struct H\n    f Float64\n    g Float32 = 1\n    example default\n        f = 3\n')
t('bytes', 'struct H\n    b Bytes\n    example default\n        b = "aGVsbG8="\n')
t('bytes bad', 'struct H\n    b Bytes\n    example default\n        b = "hello!"\n')
t('ts', 'struct H\n    t Timestamp("%Y-%m-%d")\n    example default\n        t = "2000-01-02"\n')
t('union ex', S + 'union U\n    v\n    s S\n    ns S?\n    p Int32\n    l List(S)\n    example default\n        s = default\n    example e2\n        p = 5\n    example e3\n        ns = null\n    example e4\n        l = [default]\n    example e5\n        v = null\n')
t('union in struct', S + 'union U\n    v\n    s S\n    example default\n        s = other\n' + 'struct H\n    u U\n    u2 U = v\n    example default\n        u = default\n    example e2\n        u = v\n')
t('tree', 'struct R\n    union\n        a A\n    x String\n    example default\n        a = default\nstruct A extends R\n    y String\n    example default\n        x = "X"\n        y = "Y"\nstruct H\n    r R\n    example default\n        r = default\n')
t('alias to struct', S + 'alias AS = S\nstruct H\n    s AS\n    example default\n        s = default\n')
t('alias to map', S + 'alias AM = Map(String, Int32)\nstruct H\n    m AM\n    example default\n        m = {"a": 1}\n')
t('alias to list of struct', S + 'alias AL = List(S)\nstruct H\n    l AL\n    example default\n        l = [default]\n')
t('list of nullable', 'struct H\n    l List(Int32?)\n    example default\n        l = [1, null]\n')
t('map nested', 'struct H\n    m Map(String, Map(String, Int32))\n    example default\n        m = {"a": {"b": 1}}\n')
t('inherited', S + 'struct C extends S\n    b Int32 = 4\n    example default\n        a = "q"\n')
t('pattern str', 'struct H\n    s String(pattern="a+")\n    example default\n        s = "aab"\n')
t('int as float default', 'struct H\n    f Float64 = 1\n    example default\n')
