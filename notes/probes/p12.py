import time
from stone.frontend.frontend import specs_to_ir
from stone.frontend.parser import ParserFactory
from stone.frontend.ir_generator import IRGenerator
spec = 'namespace a\nstruct S\n    f String\nunion U\n    a\n    b S\nroute r(S, U, Void)\n'
t=time.time()
for i in range(10): specs_to_ir([('a.stone', spec)])
print('specs_to_ir each', (time.time()-t)/10)
pf = ParserFactory()
t=time.time()
for i in range(200):
    p = pf.get_parser(); ast = p.parse(spec, 'a.stone'); IRGenerator([ast], '0.1b1').generate_IR()
print('reuse factory each', (time.time()-t)/200)
