import sys, os, tempfile, traceback, importlib
from stone.frontend.frontend import specs_to_ir
from stone.compiler import Compiler, BackendException
cfg = '''
namespace stone_cfg
struct Route
    host String = "api"
    style String = "rpc"
    auth String = "user"
    is_preview Boolean = false
    scope String?
'''
ns1 = '''
namespace files
    "File ops. See :type:`Meta`."
import common
alias Path = String(pattern="/.*")
struct Meta
    "Metadata."
    union
        file FileMeta
        folder FolderMeta
    name String
    path Path?
    tags List(String) = "x"
struct FileMeta extends Meta
    size UInt64
    when common.Date
    m Map(String, List(Int32))?
struct FolderMeta extends Meta
    "folder"
union WriteMode
    add
    overwrite
    update String
    m Meta
    fm FileMeta?
    l List(common.Acc)
struct Arg
    path Path
    mode WriteMode = add
    mute Boolean = false
    f Float64 = 1
    b Bytes?
    acc common.Acc?
union_closed Err
    bad_path
    other_err String
route upload(Arg, Meta, Err)
    "Upload. :route:`get:2`"
    attrs
        style = "upload"
route get:2(Arg, FileMeta, Void) deprecated
route list(Void, List(Meta), Err) deprecated by get:2
    attrs
        style = "download"
'''
ns1 = ns1.replace('    tags List(String) = "x"\n', '    tags List(String)?\n')
ns2 = '''
namespace common
alias Date = Timestamp("%Y-%m-%dT%H:%M:%SZ")
struct Acc
    id String(min_length=1, max_length=40)
    n Int32(min_value=-5, max_value=5) = 0
'''
specs = [('cfg.stone', cfg), ('files.stone', ns1), ('common.stone', ns2)]
def run(backend, args):
    api = specs_to_ir(specs)
    for ns in api.namespaces.values():
        pass
    # apply -a :all like CLI
    mod = importlib.import_module('stone.backends.' + backend)
    root = tempfile.mkdtemp()
    try:
        Compiler(api, mod, args, root).build()
        n = sum(len(f) for _,_,f in os.walk(root))
        print(backend, args[:3], 'OK files=%d' % n)
    except BackendException as e:
        print(backend, args[:3], 'BackendException', e.traceback.strip().splitlines()[-1])
    except SystemExit as e:
        print(backend, 'SystemExit', e)
    except BaseException as e:
        print(backend, 'ESCAPE', type(e).__name__, e)
tmpl = tempfile.mkdtemp(); 
run('python_types', ['-p', 'pk'])
run('python_type_stubs', ['-p', 'pk'])
run('python_client', ['-m', 'base', '-c', 'Base', '-t', 'pk'])
run('js_client', ['routes.js'])
run('js_types', ['types.js'])
run('tsd_types', ['-t', '/*TYPES*/', 'x', 'types.d.ts']) if False else None
sw_args = ['-m', 'Mod', '-c', 'Client', '-t', 'Transport', '-y', '{}', '-z', '{"rpc":"RpcRequest","upload":"UploadRequest","download":"DownloadRequest"}']
run('swift_types', [])
run('swift_types', ['--objc'])
run('swift_client', sw_args)
run('swift_client', sw_args + ['--objc'])
run('obj_c_types', [])
run('obj_c_client', sw_args)
