import sys, json, os
sys.path.insert(0,'/verif')
os.environ.setdefault('STONE_REPO','/repo')
from harness import core
core.ensure_repo_on_path()
import importlib
mod = importlib.import_module('harness.props.C20')
LOG=[]
orig = core.Check.failing_input
def wrapped(self, what, sig, case):
    LOG.append(json.dumps(sig, sort_keys=True))
    return orig(self, what, sig, case)
core.Check.failing_input = wrapped
runs=[('quick',0),('quick',1),('quick',2),('thorough',0)]
if len(sys.argv)>1: runs=[(a.split(':')[0],int(a.split(':')[1])) for a in sys.argv[1:]]
for tier,seed in runs:
    ck = core.Check('C20', tier, seed)
    rc = mod.run(ck)
    print('RUN', tier, seed, 'exit', rc, 'known', [k for k,_ in ck.known_hits], 'violations', len(ck.violations), 'broken', len(ck.broken))
sigs=sorted(set(LOG))
findings=[json.loads(l) for l in open('/verif/KNOWN_FINDINGS.jsonl') if l.strip() and not l.startswith('#')]
c20=[f for f in findings if f.get('kind')=='finding' and f.get('property')=='C20']
used=set()
ok=True
for s in sigs:
    sig=json.loads(s)
    m=[f['id'] for f in c20 if f['match'] and all(sig.get(k)==v for k,v in f['match'].items())]
    other=[f['id'] for f in findings if f.get('kind')=='finding' and f.get('property')!='C20' and f.get('match') and all(sig.get(k)==v for k,v in f['match'].items())]
    print(len(m), m, s, ('OTHER-PROPERTY:%s'%other if other else ''))
    if len(m)!=1: ok=False
    used.update(m)
print('unused C20 findings:', [f['id'] for f in c20 if f['id'] not in used])
print('ALL MATCHED EXACTLY ONCE' if ok else 'MISMATCH')
