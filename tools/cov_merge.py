#!/venv/bin/python
"""tools/cov_merge.py [Cxx ...] : union of the statements executed by the named checks (default: all measured), and what
no check executed, per function, for the files given by --files (substring match, default: everything under stone/ except _vendor)."""
import ast, collections, glob, json, os, sys
from coverage.python import PythonParser
VERIF = os.path.dirname(os.path.dirname(os.path.abspath(__file__)))
REPO = '/repo'
args = [a for a in sys.argv[1:] if not a.startswith('--')]
only = [a.split('=', 1)[1] for a in sys.argv[1:] if a.startswith('--files=')]
props = args or sorted(os.path.basename(p)[:-5] for p in glob.glob(os.path.join(VERIF, 'notes', 'coverage', 'C*.json')))
ex = collections.defaultdict(set)
for c in props:
    d = json.load(open(os.path.join(VERIF, 'notes', 'coverage', c + '.json')))
    for f, ls in d['executed'].items():
        ex[f] |= set(ls)
print('checks merged:', ' '.join(props))
tot_s = tot_e = 0
for f in sorted(ex):
    if '_vendor' in f or (only and not any(o in f for o in only)):
        continue
    src = open(os.path.join(REPO, f), encoding='utf-8').read()
    p = PythonParser(text=src, filename=f); p.parse_source()
    stmts = set(p.statements)
    done = ex[f] & stmts
    tot_s += len(stmts); tot_e += len(done)
    print('== %s: %d/%d' % (f, len(done), len(stmts)))
    tree = ast.parse(src)
    spans = [(n.lineno, n.end_lineno, n.name) for n in ast.walk(tree) if isinstance(n, (ast.FunctionDef, ast.AsyncFunctionDef))]
    lines = src.splitlines()
    per = collections.OrderedDict()
    for l in sorted(stmts - done):
        best = None
        for a, b, n in spans:
            if a <= l <= b and (best is None or a >= best[0]):
                best = (a, b, n)
        per.setdefault(best, []).append(l)
    for o, ls in per.items():
        if o is None:
            continue
        a, b, n = o
        fn = [s for s in stmts if a <= s <= b]
        if not (set(fn) & done) - {a}:
            print('   %s (line %d): never entered (%d statements)' % (n, a, len(fn)))
            continue
        print('   %s (line %d): %d of %d not executed' % (n, a, len(ls), len(fn)))
        for l in ls:
            print('      %5d  %s' % (l, lines[l - 1].strip()[:110]))
print('TOTAL %d/%d statements' % (tot_e, tot_s))
