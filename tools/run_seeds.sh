#!/bin/bash
# tools/run_seeds.sh <out-file> <seed-id>... : run each seeded change against the check of its property, one line per seed
out="$1"; shift
cd "$(dirname "${BASH_SOURCE[0]}")/.."
for id in "$@"; do
  c=${id%%-*}
  s=$(date +%s)
  line=$(tools/try_seeded.sh $id $c 2>&1 | tail -1 | cut -c1-220)
  echo "$line  [$(( $(date +%s)-s ))s]" >> "$out"
done
