#!/bin/bash
# tools/try_seeded.sh <seeded-id> <Cxx> [more Cxx...]
# Applies seeded/<id>/patch.diff and runs the checks against the changed tree, then undoes it.
#   default      : a scratch worktree of /repo + STONE_REPO (safe while other work reads /repo)
#   IN_REPO=1    : apply to /repo itself (git -C /repo apply), run, `git -C /repo checkout -- .`
# Prints one line per check: "<id> <Cxx> exit=<n> <violation-or-summary>"
set -u
here="$(cd "$(dirname "${BASH_SOURCE[0]}")/.." && pwd)"
id="$1"; shift
patch="$here/seeded/$id/patch.diff"
[ -f "$patch" ] || { echo "no $patch"; exit 2; }
if [ "${IN_REPO:-0}" = "1" ]; then
  git -C /repo diff --quiet || { echo "/repo has uncommitted changes; refusing"; exit 2; }
  git -C /repo apply "$patch" || { echo "patch does not apply"; exit 2; }
  trap 'git -C /repo checkout -- .' EXIT
  export STONE_REPO=/repo
else
  wt="/tmp/seedrun-$id-$$"
  git -C /repo worktree add -q --detach "$wt" HEAD || exit 2
  trap 'git -C /repo worktree remove --force "$wt" >/dev/null 2>&1' EXIT
  git -C "$wt" apply "$patch" || { echo "patch does not apply"; exit 2; }
  export STONE_REPO="$wt"
  # a private copy of the Lean project (with its build output): the generated tables of the changed tree must not
  # replace those of /repo under a check that runs at the same time
  lc="/tmp/seedlean-$id-$$"
  cp -a "${VERIF_LEAN_SRC:-$here/lean}" "$lc" && export VERIF_LEAN_DIR="$lc"     # VERIF_LEAN_SRC: a pristine built copy to start from
  trap 'git -C /repo worktree remove --force "$wt" >/dev/null 2>&1; rm -rf "$lc"' EXIT
fi
for c in "$@"; do
  out=$("$here/check" "$c" --tier "${TIER:-quick}" 2>&1)
  code=$?
  line=$(echo "$out" | grep -m1 '^VIOLATION' || echo "$out" | tail -1)
  echo "$id $c exit=$code $line"
done
