#!/bin/bash
# tools/try_seeded.sh <seeded-id> <Cxx> [more Cxx...]   -- apply seeded/<id>/patch.diff to /repo, run the checks, undo.
# Prints one line per check: "<id> <Cxx> exit=<n> <violation-or-summary>"
set -u
here="$(cd "$(dirname "${BASH_SOURCE[0]}")/.." && pwd)"
id="$1"; shift
patch="$here/seeded/$id/patch.diff"
[ -f "$patch" ] || { echo "no $patch"; exit 2; }
if ! git -C /repo diff --quiet; then echo "/repo has uncommitted changes; refusing"; exit 2; fi
git -C /repo apply "$patch" || { echo "patch does not apply"; exit 2; }
trap 'git -C /repo checkout -- . ; git -C /repo clean -fdq -- stone 2>/dev/null' EXIT
for c in "$@"; do
  out=$("$here/check" "$c" --tier "${TIER:-quick}" 2>&1)
  code=$?
  line=$(echo "$out" | grep -m1 '^VIOLATION' || echo "$out" | tail -1)
  echo "$id $c exit=$code $line"
done
