#!/usr/bin/env python3
"""tools/seed_table.py [suffixes...] : markdown rows (seed | what it breaks | caught by) from seeded/*/meta.json + NOTE.md"""
import glob, json, os, re, sys
here = os.path.dirname(os.path.dirname(os.path.abspath(__file__)))
want = sys.argv[1:]
for d in sorted(glob.glob(os.path.join(here, 'seeded', '*'))):
    sid = os.path.basename(d)
    if want and not any(sid.endswith(w) for w in want):
        continue
    meta = json.load(open(os.path.join(d, 'meta.json')))
    note = open(os.path.join(d, 'NOTE.md')).read() if os.path.exists(os.path.join(d, 'NOTE.md')) else ''
    first = next((l.strip('# ').strip() for l in note.splitlines() if l.strip()), '')
    first = re.sub(r'^(Change|Seeded change|NOTE)\s*\d*\s*[:—-]\s*', '', first)
    det = meta.get('detected_by') or {}
    how = det.get('how', 'NOT DETECTED') if det.get('caught') else 'NOT DETECTED'
    print('| %s | %s | %s |' % (sid, first[:150].replace('|', '/'), how[:260].replace('|', '/')))
