#!/venv/bin/python
"""tools/cov.py Cxx [--tier quick] : run one check under coverage.py (in-process real code only) and report, per function of
/repo/stone, the statements of the real code the check never executed. Copies of python_rsrc inside generated packages
are folded back onto /repo/stone/backends/python_rsrc. Output: notes/coverage/<Cxx>.txt (+ .json summary).
A measuring aid for finding generator gaps; not part of any registered check."""
import ast
import collections
import json
import os
import sys

import coverage
from coverage.python import PythonParser

VERIF = os.path.dirname(os.path.dirname(os.path.abspath(__file__)))
REPO = os.environ.get('STONE_REPO', '/repo')
RSRC = os.path.join(REPO, 'stone', 'backends', 'python_rsrc')
RSRC_NAMES = {'stone_serializers.py', 'stone_validators.py', 'stone_base.py'}


def main():
    prop = sys.argv[1]
    tier = sys.argv[3] if len(sys.argv) > 3 and sys.argv[2] == '--tier' else 'quick'
    data_file = '/tmp/cov-%s-%d.db' % (prop, os.getpid())
    # settings live in a file so that pool workers (multiprocessing) measure too and are combined afterwards
    rc = data_file + '.rc'
    with open(rc, 'w') as fh:
        fh.write('[run]\nbranch = False\nparallel = True\nconcurrency = multiprocessing\ndata_file = %s\ninclude =\n    %s/stone/*\n%s\n'
                 % (data_file, REPO, ''.join('    */%s\n' % n for n in sorted(RSRC_NAMES))))
    cov = coverage.Coverage(config_file=rc)
    sys.path.insert(0, VERIF)
    sys.argv = ['main.py', prop, '--tier', tier]
    from harness import main as hm
    cov.start()
    try:
        code = hm.main()
    finally:
        cov.stop()
        cov.save()
    cov.combine()
    data = cov.get_data()
    executed = collections.defaultdict(set)
    for f in data.measured_files():
        base = os.path.basename(f)
        key = os.path.join(RSRC, base) if (base in RSRC_NAMES and not f.startswith(REPO)) else f
        executed[key] |= set(data.lines(f) or ())
    rep = []
    summary = {}
    for key in sorted(executed):
        if not os.path.exists(key) or not key.endswith('.py'):
            continue
        src = open(key, encoding='utf-8').read()
        p = PythonParser(text=src, filename=key)
        p.parse_source()
        stmts = set(p.statements) - set(p.excluded if hasattr(p, 'excluded') else ())
        ex = executed[key] & stmts
        missing = sorted(stmts - ex)
        # enclosing function of each line
        tree = ast.parse(src)
        spans = []
        for node in ast.walk(tree):
            if isinstance(node, (ast.FunctionDef, ast.AsyncFunctionDef)):
                spans.append((node.lineno, node.end_lineno, node.name))
        def owner(line):
            best = None
            for a, b, n in spans:
                if a <= line <= b and (best is None or a >= best[0]):
                    best = (a, b, n)
            return best
        per_fn = collections.OrderedDict()
        for line in missing:
            o = owner(line)
            per_fn.setdefault(o, []).append(line)
        rel = os.path.relpath(key, REPO)
        summary[rel] = {'statements': len(stmts), 'executed': len(ex)}
        rep.append('== %s: %d/%d statements executed' % (rel, len(ex), len(stmts)))
        lines = src.splitlines()
        for o, ls in per_fn.items():
            if o is None:
                continue
            a, b, n = o
            fn_stmts = [s for s in stmts if a <= s <= b]
            if len(ls) == len(fn_stmts) - 0 and not (set(fn_stmts) & ex - {a}):
                rep.append('   %s (line %d): never entered (%d statements)' % (n, a, len(fn_stmts)))
                continue
            rep.append('   %s (line %d): %d of %d statements not executed' % (n, a, len(ls), len(fn_stmts)))
            for l in ls:
                rep.append('      %5d  %s' % (l, lines[l - 1].strip()[:110]))
    os.makedirs(os.path.join(VERIF, 'notes', 'coverage'), exist_ok=True)
    with open(os.path.join(VERIF, 'notes', 'coverage', prop + '.txt'), 'w') as fh:
        fh.write('check %s tier %s exit %s\n' % (prop, tier, code))
        fh.write('\n'.join(rep) + '\n')
    json.dump({'summary': summary,
               'executed': {os.path.relpath(k, REPO): sorted(v) for k, v in executed.items() if os.path.exists(k) and k.endswith('.py')}},
              open(os.path.join(VERIF, 'notes', 'coverage', prop + '.json'), 'w'), sort_keys=True)
    import glob
    for f in glob.glob(data_file + '*'):
        try:
            os.remove(f)
        except OSError:
            pass
    return code


if __name__ == '__main__':
    sys.exit(main())
