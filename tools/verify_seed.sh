#!/bin/bash
# tools/verify_seed.sh <src-dir> <n> <seed-id> <property>
# Confirms a seeded change in a fresh scratch worktree of /repo: applies, the existing suite passes, the demo fails with
# the change and passes without it. On success stores it as seeded/<seed-id>/ (patch.diff, demo.py, NOTE.md, meta.json).
set -u
here="$(cd "$(dirname "${BASH_SOURCE[0]}")/.." && pwd)"
src="$1"; n="$2"; id="$3"; prop="$4"
wt="/tmp/seedverify-$$"
git -C /repo worktree add -q --detach "$wt" HEAD || exit 2
cleanup() { git -C /repo worktree remove --force "$wt" >/dev/null 2>&1; }
trap cleanup EXIT
cd "$wt"
cp "$src/demo_$n.py" "$wt/demo_$n.py"
sed -i "s#$src#$wt#g" "$wt/demo_$n.py"
PYTHONPATH="$wt" timeout 600 /venv/bin/python "$wt/demo_$n.py" >/tmp/seedverify.$id.clean.log 2>&1; clean=$?
git apply "$src/change_$n.diff" || { echo "$id: patch does not apply"; exit 1; }
PYTHONPATH="$wt" timeout 600 /venv/bin/python "$wt/demo_$n.py" >/tmp/seedverify.$id.bad.log 2>&1; bad=$?
tests=$(PYTHONPATH="$wt" timeout 1800 /venv/bin/python -m pytest -q -p no:cacheprovider 2>&1 | tail -1)
echo "$id: demo clean=$clean changed=$bad tests: $tests"
if [ "$clean" = "0" ] && [ "$bad" != "0" ] && echo "$tests" | grep -q "189 passed"; then
  d="$here/seeded/$id"; mkdir -p "$d"
  cp "$src/change_$n.diff" "$d/patch.diff"; cp "$src/demo_$n.py" "$d/demo.py"; cp "$src/NOTE_$n.md" "$d/NOTE.md" 2>/dev/null
  python3 - "$d" "$id" "$prop" "$tests" <<'PY'
import json, sys, re
d, sid, prop, tests = sys.argv[1:5]
note = open(d + '/NOTE.md').read() if __import__('os').path.exists(d + '/NOTE.md') else ''
json.dump({'id': sid, 'breaks_property': prop,
           'needs_to_manifest': note[:1500],
           'confirmed': {'applies_to_repo_head': True, 'existing_suite': tests.strip(),
                         'demo_exit_without_change': 0, 'demo_exit_with_change': 'non-zero',
                         'how': 'tools/verify_seed.sh in a fresh scratch worktree of /repo (removed afterwards)'},
           'detected_by': None}, open(d + '/meta.json', 'w'), indent=1)
PY
  echo "$id: stored"
else
  echo "$id: NOT confirmed (see /tmp/seedverify.$id.*.log)"; tail -5 /tmp/seedverify.$id.bad.log
fi
