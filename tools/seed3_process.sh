#!/bin/bash
# tools/seed3_process.sh Cxx [Cyy...] : confirm the round-3 seeds of a property (ids Cxx-s5, Cxx-s6) and run its check against them
cd "$(dirname "${BASH_SOURCE[0]}")/.."
for c in "$@"; do
  lc=$(echo "$c" | tr 'C' 'c')
  for n in 1 2; do
    id="$c-s$((n+4))"
    [ -f /tmp/seed3-$lc/change_$n.diff ] || { echo "$id: no change_$n.diff"; continue; }
    tools/verify_seed.sh /tmp/seed3-$lc $n $id $c 2>&1 | tail -3
    [ -d seeded/$id ] && tools/try_seeded.sh $id $c 2>&1 | cut -c1-300
  done
done
