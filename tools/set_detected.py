#!/usr/bin/env python3
"""tools/set_detected.py <seed-id> <check> <how...> : record in seeded/<id>/meta.json which check catches the change."""
import json, os, sys
sid, check, how = sys.argv[1], sys.argv[2], ' '.join(sys.argv[3:])
p = os.path.join(os.path.dirname(os.path.dirname(os.path.abspath(__file__))), 'seeded', sid, 'meta.json')
d = json.load(open(p))
d['detected_by'] = {'check': check, 'caught': True, 'how': how, 'ran': 'tools/try_seeded.sh %s %s' % (sid, check)}
json.dump(d, open(p, 'w'), indent=1)
