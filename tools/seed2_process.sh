#!/bin/bash
# tools/seed2_process.sh Cxx [Cyy...] : confirm the round-2 seeds of a property (ids Cxx-s3, Cxx-s4) and run its check against them
cd "$(dirname "${BASH_SOURCE[0]}")/.."
for c in "$@"; do
  lc=$(echo "$c" | tr 'C' 'c')
  for n in 1 2; do
    id="$c-s$((n+2))"
    tools/verify_seed.sh /tmp/seed2-$lc $n $id $c 2>&1 | tail -3
    [ -d seeded/$id ] && tools/try_seeded.sh $id $c 2>&1 | cut -c1-400
  done
done
