#!/bin/bash
# tools/reverify_seed.sh <out-file> <seed-id>... : re-confirm stored seeded changes against /repo's CURRENT head:
# the patch applies, the project's tests pass with it, the demo exits 0 without and non-zero with the change.
out="$1"; shift
here="$(cd "$(dirname "${BASH_SOURCE[0]}")/.." && pwd)"
for id in "$@"; do
  wt="/tmp/reverify-$id-$$"
  git -C /repo worktree add -q --detach "$wt" HEAD || { echo "$id: worktree failed" >> "$out"; continue; }
  src="$here/seeded/$id"
  cp "$src/demo.py" "$wt/demo_x.py"
  # demos refer to the directory they were written in
  sed -i -E "s#/tmp/seed2?-c[0-9]+#$wt#g; s#/tmp/seed-[a-z0-9-]+#$wt#g" "$wt/demo_x.py"
  (cd "$wt" && PYTHONPATH="$wt" timeout 600 /venv/bin/python demo_x.py >/tmp/reverify.$id.clean.log 2>&1); clean=$?
  if git -C "$wt" apply "$src/patch.diff" 2>/dev/null; then applies=yes; else applies=NO; fi
  (cd "$wt" && PYTHONPATH="$wt" timeout 600 /venv/bin/python demo_x.py >/tmp/reverify.$id.bad.log 2>&1); bad=$?
  tests=$(cd "$wt" && PYTHONPATH="$wt" timeout 1800 /venv/bin/python -m pytest -q -p no:cacheprovider 2>&1 | tail -1 | cut -c1-40)
  echo "$id: applies=$applies demo_clean=$clean demo_changed=$bad tests=[$tests]" >> "$out"
  git -C /repo worktree remove --force "$wt" >/dev/null 2>&1
done
